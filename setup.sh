#!/bin/sh
# Run once after a fresh restore, offline.  Nothing is fetched.  Warms the Kani build of the crates
# that carry contract units so that the first check does not pay for the dependency build.
set -e
cd "$(dirname "$0")"
mkdir -p .build/playback .build/logs evidence replays
export CARGO_NET_OFFLINE=true
python3 tools/runner.py WARMUP --tier quick || true
exit 0
