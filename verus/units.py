"""Verus units: contracts for functions lifted mechanically from /repo on every run (tools/lift.py).

Every unit names the real source file, the items to slice out of it, the configuration used to resolve
#[cfg] arms, a prelude (R5: shapes of the crate types the code mentions; spec functions written from the
D-Bus specification / the property statement), and per function the `requires` / `ensures` clauses to be
inserted between the extracted signature and the extracted body.  Each ensures clause has an obligation id.
"""

PRELUDE_ERR = """
pub enum MaxDepthExceeded { Structure, Array, Container }
pub enum Error { MaxDepthExceeded(MaxDepthExceeded), Other }
pub type Result<T> = core::result::Result<T, Error>;
"""


def depths_unit(gv):
    tag = "gvariant" if gv else "default"
    total = "d.structure + d.array + d.variant" + (" + d.maybe" if gv else "")
    P = f"C07.verus.{tag}"
    prelude = PRELUDE_ERR + f"""
// Spec (from the property statement): at most 32 structures, 32 arrays, 64 containers in total.
pub open spec fn total(d: ContainerDepths) -> int {{ {total} }}
pub open spec fn wf(d: ContainerDepths) -> bool {{ d.structure <= 32 && d.array <= 32 && total(d) <= 64 }}
// state one step after a wf state (what `check` is called on)
pub open spec fn wf1(d: ContainerDepths) -> bool {{ d.structure <= 33 && d.array <= 33 && total(d) <= 65 }}
pub open spec fn err_kind(r: Result<ContainerDepths>) -> MaxDepthExceeded {{ r->Err_0->MaxDepthExceeded_0 }}
"""

    def inc(field, own):
        others = [f for f in (["structure", "array", "variant"] + (["maybe"] if gv else [])) if f != field]
        bumped = f"(ContainerDepths {{ {field}: (self.{field} + 1) as u8, ..self }})"
        ens = [
            (f"{P}.inc_{field}.ok_iff_within_limits", f"r is Ok <==> wf({bumped})"),
            (f"{P}.inc_{field}.new_state_exact", f"r is Ok ==> r->Ok_0 == {bumped}"),
            (f"{P}.inc_{field}.preserves_wf", "r is Ok ==> wf(r->Ok_0)"),
            (f"{P}.inc_{field}.error_is_depth_error", "r is Err ==> r->Err_0 is MaxDepthExceeded"),
        ]
        if own:
            ens.append((f"{P}.inc_{field}.error_kind",
                        f"r is Err ==> (err_kind(r) is {own} <==> self.{field} + 1 > 32) && (err_kind(r) is Container <==> self.{field} + 1 <= 32)"))
        else:
            ens.append((f"{P}.inc_{field}.error_kind", "r is Err ==> err_kind(r) is Container"))
        return {"requires": ["wf(self)"], "ensures": ens}

    def dec(field):
        return {"requires": [f"self.{field} > 0"],
                "ensures": [(f"{P}.dec_{field}.exact_inverse", f"r == (ContainerDepths {{ {field}: (self.{field} - 1) as u8, ..self }})"),
                            (f"{P}.dec_{field}.preserves_wf", "wf(self) ==> wf(r)")]}

    contracts = {
        "check": {"requires": ["wf1(self)"],
                  "ensures": [(f"{P}.check.ok_iff_wf", "r is Ok <==> wf(self)"),
                              (f"{P}.check.identity", "r is Ok ==> r->Ok_0 == self"),
                              (f"{P}.check.error_kind",
                               "r is Err ==> r->Err_0 is MaxDepthExceeded && (err_kind(r) is Structure <==> self.structure > 32) "
                               "&& (err_kind(r) is Array <==> (self.structure <= 32 && self.array > 32))")]},
        "inc_structure": inc("structure", "Structure"), "dec_structure": dec("structure"),
        "inc_array": inc("array", "Array"), "dec_array": dec("array"),
        "inc_variant": inc("variant", None),
    }
    if gv:
        contracts["inc_maybe"] = inc("maybe", None)
        contracts["dec_maybe"] = dec("maybe")
    lemmas = """
// Lemma (the property as a statement over the contracts): from the empty nesting state, a sequence of container
// openings is accepted step by step iff every prefix stays within 32/32/64 -- inc_* is Ok exactly when the
// bumped state is wf, and dec_* returns to the previous state, so the counters equal the current nesting depth.
proof fn lemma_limits_exact(d: ContainerDepths)
    requires wf(d),
    ensures
        wf((ContainerDepths { structure: (d.structure + 1) as u8, ..d })) <==> (d.structure < 32 && total(d) < 64),
        wf((ContainerDepths { array: (d.array + 1) as u8, ..d })) <==> (d.array < 32 && total(d) < 64),
        wf((ContainerDepths { variant: (d.variant + 1) as u8, ..d })) <==> total(d) < 64,
{
}
"""
    return {
        "id": f"C07.verus.container_depths.{tag}", "props": ["C07"], "file": "zvariant/src/container_depths.rs",
        "cfg": {'feature="gvariant"': gv},
        "prelude": prelude,
        "items": [{"kind": "const", "name": "MAX_STRUCT_DEPTH"}, {"kind": "const", "name": "MAX_ARRAY_DEPTH"},
                  {"kind": "const", "name": "MAX_TOTAL_DEPTH"}, {"kind": "struct", "name": "ContainerDepths"},
                  {"kind": "impl", "name": "ContainerDepths"}],
        "contracts": contracts,
        "lemmas": lemmas,
        "lemma_obligations": [(f"{P}.lemma.limits_exact", "lemma_limits_exact")],
        "fns": ["zvariant::container_depths::ContainerDepths::{inc_structure,inc_array,inc_variant,dec_structure,dec_array,check}"
                + ("+{inc_maybe,dec_maybe}" if gv else "")],
    }


UNITS = [depths_unit(False), depths_unit(True)]


# ---------------------------------------------------------------------------------------------------------------
# padding arithmetic (C01/C03/C05: "alignment padding"), both copies of the function
# ---------------------------------------------------------------------------------------------------------------
PAD_PRELUDE = """
// D-Bus / GVariant alignments are 1, 2, 4 or 8 (specification: marshalling table).
pub open spec fn is_align(a: usize) -> bool { a == 1 || a == 2 || a == 4 || a == 8 }
// Spec: the padding is the least r >= 0 with (value + r) divisible by align (mathematical integers, no wrap).
pub open spec fn spec_pad(value: int, align: int) -> int { (align - value % align) % align }

// ASSUMED contract of a std function (listed in evidence): 1, 2, 4, 8 are powers of two.
pub assume_specification [usize::is_power_of_two] (x: usize) -> (r: bool)
    ensures is_align(x) ==> r;

proof fn lemma_pad_bv(v: u64, a: u64, t1: u64, t2: u64, am: u64, lr: u64, res: u64)
    requires a == 1 || a == 2 || a == 4 || a == 8,
        t1 == (if v + a > 0xffff_ffff_ffff_ffff { v + a - 0x1_0000_0000_0000_0000 } else { v + a }),
        t2 == (if t1 - 1 < 0 { t1 - 1 + 0x1_0000_0000_0000_0000 } else { t1 - 1 }),
        am == a - 1,
        lr == t2 & !am,
        res == (if lr - v < 0 { lr - v + 0x1_0000_0000_0000_0000 } else { lr - v }),
    ensures res < a, (v + res) % (a as int) == 0,
{
    assert(res < a && (v + res) % (a as int) == 0) by(bit_vector)
        requires a == 1 || a == 2 || a == 4 || a == 8,
        t1 == (if v + a > 0xffff_ffff_ffff_ffff { v + a - 0x1_0000_0000_0000_0000 } else { v + a }),
        t2 == (if t1 - 1 < 0 { t1 - 1 + 0x1_0000_0000_0000_0000 } else { t1 - 1 }),
        am == a - 1,
        lr == t2 & !am,
        res == (if lr - v < 0 { lr - v + 0x1_0000_0000_0000_0000 } else { lr - v });
}

// r < a and a | (v + r)  determine r uniquely: it is the spec padding
proof fn lemma_pad_unique(v: int, a: int, r: int)
    requires a == 1 || a == 2 || a == 4 || a == 8, 0 <= r < a, v >= 0, (v + r) % a == 0,
    ensures r == spec_pad(v, a),
{
    assert(r == (a - v % a) % a) by(nonlinear_arith)
        requires a == 1 || a == 2 || a == 4 || a == 8, 0 <= r < a, v >= 0, (v + r) % a == 0;
}
"""

PAD_PROOF = """            let t1 = value.wrapping_add(align);
            let t2 = t1.wrapping_sub(1);
            let am = align.wrapping_sub(1);
            let res = len_rounded_up.wrapping_sub(value);
            lemma_pad_bv(value as u64, align as u64, t1 as u64, t2 as u64, am as u64, len_rounded_up as u64, res as u64);
            lemma_pad_unique(value as int, align as int, res as int);"""


def pad_unit(uid, prop_prefix, file, fnpath, extra_items=(), extra_contracts=None):
    P = prop_prefix
    contracts = {
        "padding_for_n_bytes": {
            "requires": ["is_align(align)"],
            "ensures": [(f"{P}.padding_for_n_bytes.lt_align", "r < align"),
                        (f"{P}.padding_for_n_bytes.aligned", "(value + r) % (align as int) == 0"),
                        (f"{P}.padding_for_n_bytes.eq_spec", "r == spec_pad(value as int, align as int)")],
            "proof_after": [(r"let\s+len_rounded_up\s*=", PAD_PROOF)],
        }
    }
    contracts.update(extra_contracts or {})
    return {
        "id": uid, "props": ["C01", "C03", "C05"] if "zvariant" in file else ["C11", "C12"], "file": file, "cfg": {},
        "prelude": PAD_PRELUDE,
        "items": [{"kind": "fn", "name": "padding_for_n_bytes"}] + list(extra_items),
        "contracts": contracts,
        "lemma_obligations": [(f"{P}.lemma.pad_bitvector", "lemma_pad_bv"), (f"{P}.lemma.pad_unique", "lemma_pad_unique")],
        "fns": [fnpath],
    }


UNITS.append(pad_unit("C01.verus.padding", "C01.verus", "zvariant/src/utils.rs", "zvariant::utils::padding_for_n_bytes",
                      extra_items=[{"kind": "fn", "name": "usize_to_u32"}, {"kind": "fn", "name": "usize_to_u8"}],
                      extra_contracts={
                          "usize_to_u32": {"requires": ["value <= u32::MAX"],
                                           "ensures": [("C01.verus.usize_to_u32.value_preserved", "r as int == value as int")]},
                          "usize_to_u8": {"requires": ["value <= u8::MAX"],
                                          "ensures": [("C01.verus.usize_to_u8.value_preserved", "r as int == value as int")]},
                      }))

UNITS.append(pad_unit("C12.verus.padding_zbus", "C12.verus", "zbus/src/utils.rs", "zbus::utils::padding_for_n_bytes",
                      extra_items=[{"kind": "fn", "name": "padding_for_8_bytes"}],
                      extra_contracts={
                          "padding_for_8_bytes": {"ensures": [("C12.verus.padding_for_8_bytes.lt_8", "r < 8"),
                                                              ("C12.verus.padding_for_8_bytes.aligned", "(value + r) % 8 == 0")]},
                      }))


# ---------------------------------------------------------------------------------------------------------------
# GVariant framing-offset width rule (C05): for_bare_container returns the MINIMAL width that can express the
# container size including the offsets themselves -- for all lengths (unbounded; the loop has <= 4 iterations)
# ---------------------------------------------------------------------------------------------------------------
FOS_PRELUDE = """
// Spec (GVariant specification, "framing offsets"): offsets are 1, 2, 4 or 8 bytes wide; the width is the
// smallest one such that the whole container, offsets included, can be addressed.
pub open spec fn width(s: FramingOffsetSize) -> int {
    match s { FramingOffsetSize::U8 => 1, FramingOffsetSize::U16 => 2, FramingOffsetSize::U32 => 4, FramingOffsetSize::U64 => 8 }
}
pub open spec fn max_of(s: FramingOffsetSize) -> int {
    match s { FramingOffsetSize::U8 => 0xff, FramingOffsetSize::U16 => 0xffff, FramingOffsetSize::U32 => 0xffff_ffff,
              FramingOffsetSize::U64 => 0xffff_ffff_ffff_ffff }
}
pub open spec fn fits(len: int, n: int, s: FramingOffsetSize) -> bool { len + n * width(s) <= max_of(s) }
pub open spec fn smaller_do_not_fit(len: int, n: int, s: FramingOffsetSize) -> bool {
    &&& (width(s) > 1 ==> !fits(len, n, FramingOffsetSize::U8))
    &&& (width(s) > 2 ==> !fits(len, n, FramingOffsetSize::U16))
    &&& (width(s) > 4 ==> !fits(len, n, FramingOffsetSize::U32))
}
"""

UNITS.append({
    "id": "C05.verus.framing_offset_size", "props": ["C05"], "file": "zvariant/src/framing_offset_size.rs",
    "cfg": {'target_pointer_width="32"': False},
    "prelude": FOS_PRELUDE,
    "items": [{"kind": "enum", "name": "FramingOffsetSize"},
              {"kind": "impl", "name": "FramingOffsetSize", "only_fns": ["for_bare_container", "for_encoded_container", "max", "bump_up"]}],
    "contracts": {
        "max": {"ensures": [("C05.verus.max.eq_spec", "r as int == max_of(self)")]},
        "bump_up": {"ensures": [("C05.verus.bump_up.next_width", "r is Some ==> width(r->Some_0) == 2 * width(self)"),
                                ("C05.verus.bump_up.none_only_at_u64", "r is None <==> self is U64")]},
        "for_bare_container": {
            # the container must be addressable with 8-byte offsets at all (otherwise the real code panics by design)
            "requires": ["container_len as int + 8 * (num_offsets as int) <= 0xffff_ffff_ffff_ffff"],
            "ensures": [("C05.verus.for_bare_container.fits", "fits(container_len as int, num_offsets as int, r)"),
                        ("C05.verus.for_bare_container.minimal", "smaller_do_not_fit(container_len as int, num_offsets as int, r)")],
            "loops": {0: """            invariant
                container_len as int + 8 * (num_offsets as int) <= 0xffff_ffff_ffff_ffff,
                smaller_do_not_fit(container_len as int, num_offsets as int, offset_size), // @obl C05.verus.for_bare_container.minimal
            decreases 8 - width(offset_size),"""},
            "proof_before": [(r"if\s+container_len\s*\+", """            assert(offset_size as usize == width(offset_size));
            assert(num_offsets * (offset_size as usize) <= num_offsets * 8) by(nonlinear_arith)
                requires offset_size as usize <= 8, num_offsets >= 0;""")],
        },
        "for_encoded_container": {
            "ensures": [("C05.verus.for_encoded_container.fits", "container_len as int <= max_of(r)"),
                        ("C05.verus.for_encoded_container.minimal", "smaller_do_not_fit(container_len as int, 0, r)")]},
    },
    "fns": ["zvariant::framing_offset_size::FramingOffsetSize::{for_bare_container,for_encoded_container,max,bump_up}"],
})


# ---------------------------------------------------------------------------------------------------------------
# D-Bus alignment table (C01 anchor "per-type D-Bus alignment table"): for ALL signatures (the function does not
# recurse, so the statement is unbounded in the shape of the children)
# ---------------------------------------------------------------------------------------------------------------
ALIGN_PRELUDE = """
// Spec: D-Bus specification, "Summary of types" / marshalling alignment column.
pub open spec fn spec_align_dbus(s: Signature) -> int {
    match s {
        Signature::U8 => 1,          // BYTE
        Signature::Bool => 4,        // BOOLEAN
        Signature::I16 => 2, Signature::U16 => 2,
        Signature::I32 => 4, Signature::U32 => 4,
        Signature::I64 => 8, Signature::U64 => 8,
        Signature::F64 => 8,         // DOUBLE
        Signature::Str => 4,         // STRING: aligned as its u32 length
        Signature::ObjectPath => 4,  // OBJECT_PATH
        Signature::Signature => 1,   // SIGNATURE: u8 length
        Signature::Variant => 1,     // VARIANT: alignment of the signature
        Signature::Fd => 4,          // UNIX_FD
        Signature::Array(_) => 4,    // ARRAY: aligned as its u32 length
        Signature::Dict { .. } => 4, // array of dict entries
        Signature::Structure(_) => 8,
        Signature::Unit => 8,        // (zvariant-internal "no data": treated as an empty structure)
    }
}
"""

UNITS.append({
    "id": "C01.verus.alignment_dbus", "props": ["C01", "C03"], "file": "zvariant_utils/src/signature/mod.rs",
    "cfg": {'feature="gvariant"': False, "unix": True},
    "prelude": ALIGN_PRELUDE,
    "items": [{"kind": "enum", "name": "Format", "file": "zvariant_utils/src/serialized.rs"},
              {"kind": "enum", "name": "Child", "file": "zvariant_utils/src/signature/child.rs", "derives": []},
              {"kind": "enum", "name": "Fields", "file": "zvariant_utils/src/signature/fields.rs", "derives": []},
              {"kind": "enum", "name": "Signature", "derives": []},
              {"kind": "impl", "name": "Signature", "only_fns": ["alignment", "alignment_dbus"]}],
    "contracts": {
        "alignment_dbus": {"ensures": [("C01.verus.alignment_dbus.eq_spec_table", "r as int == spec_align_dbus(*self)"),
                                       ("C01.verus.alignment_dbus.is_1_2_4_8", "r == 1 || r == 2 || r == 4 || r == 8")]},
        "alignment": {"ensures": [("C01.verus.alignment.dbus_format_uses_table", "format is DBus ==> r as int == spec_align_dbus(*self)")]},
    },
    "fns": ["zvariant_utils::signature::Signature::{alignment,alignment_dbus}"],
})
