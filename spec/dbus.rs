// Spec functions (oracle) for the D-Bus wire format, written from the D-Bus specification
// ("Marshaling (Wire Format)"): alignment table, padding, fixed-size encodings.
// Allocation-free, panic-free.  Never derived from the code under test.

/// Number of zero bytes needed so that `off + pad` is a multiple of `align` (align ∈ {1,2,4,8}).
#[allow(dead_code)]
pub(crate) fn spec_pad(off: usize, align: usize) -> usize {
    let rem = (off as u128 % align as u128) as usize;
    if rem == 0 { 0 } else { align - rem }
}
