// Spec functions (oracle) for the D-Bus wire format, written from the D-Bus specification
// ("Marshaling (Wire Format)"): alignment table, padding, fixed-size encodings.
// Allocation-free, panic-free.  Never derived from the code under test.

/// Number of zero bytes needed so that `off + pad` is a multiple of `align` (align ∈ {1,2,4,8}).
#[allow(dead_code)]
pub(crate) fn spec_pad(off: usize, align: usize) -> usize {
    let rem = (off as u128 % align as u128) as usize;
    if rem == 0 { 0 } else { align - rem }
}

// ---- container nesting limits (D-Bus specification, "Valid Signatures": 32 arrays, 32 structs, 64 total)
pub(crate) const SPEC_MAX_STRUCT: u32 = 32;
pub(crate) const SPEC_MAX_ARRAY: u32 = 32;
pub(crate) const SPEC_MAX_TOTAL: u32 = 64;

/// Is a nesting state (counts of open structures / arrays / variants / maybes) within the limits?
#[allow(dead_code)]
pub(crate) fn spec_depth_ok(s: u32, a: u32, v: u32, m: u32) -> bool {
    s <= SPEC_MAX_STRUCT && a <= SPEC_MAX_ARRAY && s + a + v + m <= SPEC_MAX_TOTAL
}

// ---- fixed-size values: little/big endian decoding of the D-Bus basic types ----------------------
#[allow(dead_code)]
pub(crate) fn spec_u16(b: &[u8], big: bool) -> u16 {
    if big { ((b[0] as u16) << 8) | b[1] as u16 } else { ((b[1] as u16) << 8) | b[0] as u16 }
}
#[allow(dead_code)]
pub(crate) fn spec_u32(b: &[u8], big: bool) -> u32 {
    if big {
        ((b[0] as u32) << 24) | ((b[1] as u32) << 16) | ((b[2] as u32) << 8) | b[3] as u32
    } else {
        ((b[3] as u32) << 24) | ((b[2] as u32) << 16) | ((b[1] as u32) << 8) | b[0] as u32
    }
}
#[allow(dead_code)]
pub(crate) fn spec_u64(b: &[u8], big: bool) -> u64 {
    if big {
        ((spec_u32(&b[0..4], true) as u64) << 32) | spec_u32(&b[4..8], true) as u64
    } else {
        ((spec_u32(&b[4..8], false) as u64) << 32) | spec_u32(&b[0..4], false) as u64
    }
}

/// byte `i` (0-based, in wire order) of the encoding of a `size`-byte unsigned value
#[allow(dead_code)]
pub(crate) fn spec_enc_byte(value: u64, size: usize, big: bool, i: usize) -> u8 {
    let shift = if big { (size - 1 - i) * 8 } else { i * 8 };
    ((value >> shift) & 0xff) as u8
}

/// D-Bus alignment (= size for fixed-size types) by type code, from the specification's marshalling table.
#[allow(dead_code)]
pub(crate) fn spec_align_of(code: u8) -> usize {
    match code {
        b'y' | b'g' | b'v' => 1,
        b'n' | b'q' => 2,
        b'b' | b'i' | b'u' | b'h' | b's' | b'o' | b'a' => 4,
        b'x' | b't' | b'd' | b'(' | b'{' => 8,
        _ => 0,
    }
}

/// `true` iff the `n` bytes at `b[start..start+n]` exist and are all zero (n <= 7; loop-free on purpose so
/// that callers can run with a small unwinding bound).
#[allow(dead_code)]
pub(crate) fn spec_zero_padding(b: &[u8], start: usize, n: usize) -> bool {
    if n > 7 || start > b.len() || n > b.len() - start { return false; }
    (n < 1 || b[start] == 0)
        && (n < 2 || b[start + 1] == 0)
        && (n < 3 || b[start + 2] == 0)
        && (n < 4 || b[start + 3] == 0)
        && (n < 5 || b[start + 4] == 0)
        && (n < 6 || b[start + 5] == 0)
        && (n < 7 || b[start + 6] == 0)
}
