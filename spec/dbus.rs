// Spec functions (oracle) for the D-Bus wire format, written from the D-Bus specification
// ("Marshaling (Wire Format)"): alignment table, padding, fixed-size encodings.
// Allocation-free, panic-free.  Never derived from the code under test.

/// Number of zero bytes needed so that `off + pad` is a multiple of `align` (align ∈ {1,2,4,8}).
#[allow(dead_code)]
pub(crate) fn spec_pad(off: usize, align: usize) -> usize {
    let rem = (off as u128 % align as u128) as usize;
    if rem == 0 { 0 } else { align - rem }
}

// ---- container nesting limits (D-Bus specification, "Valid Signatures": 32 arrays, 32 structs, 64 total)
pub(crate) const SPEC_MAX_STRUCT: u32 = 32;
pub(crate) const SPEC_MAX_ARRAY: u32 = 32;
pub(crate) const SPEC_MAX_TOTAL: u32 = 64;

/// Is a nesting state (counts of open structures / arrays / variants / maybes) within the limits?
#[allow(dead_code)]
pub(crate) fn spec_depth_ok(s: u32, a: u32, v: u32, m: u32) -> bool {
    s <= SPEC_MAX_STRUCT && a <= SPEC_MAX_ARRAY && s + a + v + m <= SPEC_MAX_TOTAL
}
