// Spec recognisers for the validated string types, written from the D-Bus specification
// ("Valid Names", "Valid Object Paths", "Server Addresses/UUIDs").  Allocation-free byte loops.

#[allow(dead_code)]
fn sp_alpha(b: u8) -> bool { (b >= b'a' && b <= b'z') || (b >= b'A' && b <= b'Z') }
#[allow(dead_code)]
fn sp_digit(b: u8) -> bool { b >= b'0' && b <= b'9' }

/// Generic "dotted elements" grammar: >= `min_elems` elements separated by single '.', each element
/// non-empty, characters from [A-Za-z0-9_] plus '-' if `hyphen`; an element may start with a digit only
/// if `digit_first`.  (No leading/trailing '.', no "..".)
#[allow(dead_code)]
fn sp_dotted(b: &[u8], min_elems: usize, hyphen: bool, digit_first: bool) -> bool {
    let mut elems = 0usize;
    let mut at_start = true; // at the start of an element
    let mut i = 0;
    while i < b.len() {
        let c = b[i];
        if c == b'.' {
            if at_start { return false; }
            at_start = true;
        } else {
            let ok = sp_alpha(c) || c == b'_' || (hyphen && c == b'-') || (sp_digit(c) && (digit_first || !at_start));
            if !ok { return false; }
            if at_start { elems += 1; }
            at_start = false;
        }
        i += 1;
    }
    !at_start && elems >= min_elems
}

/// Interface names (and error names): 2+ elements, [A-Za-z_][A-Za-z0-9_]*, <= 255 bytes.
#[allow(dead_code)]
pub(crate) fn spec_interface_name(b: &[u8]) -> bool { b.len() <= 255 && sp_dotted(b, 2, false, false) }

/// Well-known bus names: 2+ elements, [A-Za-z_-][A-Za-z0-9_-]*, <= 255 bytes.
#[allow(dead_code)]
pub(crate) fn spec_well_known_name(b: &[u8]) -> bool { b.len() <= 255 && sp_dotted(b, 2, true, false) }

/// Unique connection names: ':' then 2+ elements of [A-Za-z0-9_-]+ (digits may lead), <= 255 bytes.
/// zbus documents one extra member: the bus driver's own name "org.freedesktop.DBus".
#[allow(dead_code)]
pub(crate) fn spec_unique_name(b: &[u8]) -> bool {
    if b.len() > 255 { return false; }
    if b.len() == 20 {
        let d = b"org.freedesktop.DBus";
        let mut i = 0; let mut same = true;
        while i < 20 { if b[i] != d[i] { same = false; } i += 1; }
        if same { return true; }
    }
    b.len() >= 1 && b[0] == b':' && sp_dotted(&b[1..], 2, true, true)
}

/// Bus names = unique or well-known.
#[allow(dead_code)]
pub(crate) fn spec_bus_name(b: &[u8]) -> bool { spec_unique_name(b) || spec_well_known_name(b) }

/// Member names: [A-Za-z_][A-Za-z0-9_]*, 1..=255 bytes, no '.'.
#[allow(dead_code)]
pub(crate) fn spec_member_name(b: &[u8]) -> bool {
    if b.len() == 0 || b.len() > 255 { return false; }
    let mut i = 0;
    while i < b.len() {
        let c = b[i];
        if !(sp_alpha(c) || c == b'_' || (i > 0 && sp_digit(c))) { return false; }
        i += 1;
    }
    true
}

/// Property names: the specification only bounds their length; 1..=255 bytes.
#[allow(dead_code)]
pub(crate) fn spec_property_name(b: &[u8]) -> bool { b.len() >= 1 && b.len() <= 255 }

/// Object paths: "/" alone, or ("/" element)+ with element = [A-Za-z0-9_]+ ; no trailing '/', no "//".
#[allow(dead_code)]
pub(crate) fn spec_object_path(b: &[u8]) -> bool {
    if b.len() == 0 || b[0] != b'/' { return false; }
    if b.len() == 1 { return true; }
    let mut prev_slash = true; // b[0]
    let mut i = 1;
    while i < b.len() {
        let c = b[i];
        if c == b'/' {
            if prev_slash { return false; }
            prev_slash = true;
        } else {
            if !(sp_alpha(c) || sp_digit(c) || c == b'_') { return false; }
            prev_slash = false;
        }
        i += 1;
    }
    !prev_slash
}

/// Server GUID: exactly 32 hexadecimal digits.
#[allow(dead_code)]
pub(crate) fn spec_guid(b: &[u8]) -> bool {
    if b.len() != 32 { return false; }
    let mut i = 0;
    while i < 32 {
        let c = b[i];
        if !(sp_digit(c) || (c >= b'a' && c <= b'f') || (c >= b'A' && c <= b'F')) { return false; }
        i += 1;
    }
    true
}
