// Contracts for zbus/src/connection/handshake/common.rs: the line splitter `Common::read_commands`
// (child module of `zbus::connection::handshake::common`: builds `Common` with its private fields).
//
// `read_commands` is an async fn over a boxed socket.  It is executed here for real: the receive buffer is pre-filled
// with a symbolic byte string (what earlier reads delivered), the socket halves are harness-local mocks whose futures
// are always ready (the read half is at EOF), so one poll with a no-op waker runs the whole method.
//
// Callee replaced by a stub: <Command as FromStr>::from_str (split/hex/String: does not finish under CBMC, DESIGN §3) --
// the stub rejects every line; the obligations below are about what happens BEFORE a line reaches the parser.
#![allow(unused_imports, dead_code, unused_variables, unused_mut)]
use super::*;
use crate::connection::socket::{ReadHalf, Split, WriteHalf};
use core::future::Future;
use core::pin::Pin;
use core::task::{Context as TaskCx, Poll, Waker};
include!("/verif/harness/common.rs");

#[derive(Debug)]
struct EofRead;
#[async_trait::async_trait]
impl ReadHalf for EofRead {
    async fn recvmsg(&mut self, _buf: &mut [u8]) -> std::io::Result<(usize, Vec<std::os::fd::OwnedFd>)> { Ok((0, Vec::new())) }
}
#[derive(Debug)]
struct NoWrite;
#[async_trait::async_trait]
impl WriteHalf for NoWrite {
    async fn close(&mut self) -> std::io::Result<()> { Ok(()) }
    // overridden so that the vtable does not drag the default body (Message Debug, fd passing) into the analysis
    async fn send_message(&mut self, _msg: &crate::message::Message) -> crate::Result<()> { Ok(()) }
}

fn stub_command_from_str(_s: &str) -> Result<Command> { Err(Error::InvalidField) }
// `trace!("Reading {line}")` makes <str as Display>::fmt reachable, on which the Kani 0.68 compiler panics
// (intrinsics.rs:243); log text is not part of any contract
// tracing: any event (`trace!`) makes the dispatcher machinery reachable, on which the Kani 0.68 compiler panics
// (intrinsics.rs:243).  Logging is not part of any contract: the three entry points the macro calls are no-ops here.
fn stub_tracing_interest(_cs: &tracing::callsite::DefaultCallsite) -> tracing::subscriber::Interest { tracing::subscriber::Interest::never() }
fn stub_tracing_is_enabled(_m: &tracing::Metadata<'static>, _i: tracing::subscriber::Interest) -> bool { false }
fn stub_tracing_dispatch<'a: 'a>(_m: &'static tracing::Metadata<'static>, _f: &'a tracing::field::ValueSet<'_>) {}
fn stub_tracing_span_new(_m: &'static tracing::Metadata<'static>, _v: &tracing::field::ValueSet<'_>) -> tracing::Span { tracing::Span::none() }
fn stub_str_display(_s: &str, _f: &mut core::fmt::Formatter<'_>) -> core::fmt::Result { Ok(()) }

const N: usize = 3;

// ---- contract (C16, reduced: "stray line endings ... no input makes the server panic") ----
// requires any receive buffer of <= 3 bytes (all 256 byte values), first_command either way
// ensures  no panic (implicit obligation: index / arithmetic / unwrap sites inside read_commands);
//          a line whose LF is not preceded by CR (including a LF as the very first byte) is an error, never a command
// @unit C16.read_commands.stray_line_endings props=C16 kind=bounded bound=recv_buffer<=3_bytes fn=zbus::connection::handshake::common::Common::read_commands timeout=900
#[cfg(not(verif_skip_c16_read_commands_stray_line_endings__bounded))]
#[cfg(kani)]
#[kani::proof]
#[kani::stub(alloc::fmt::format, stub_format)]
#[kani::stub(<Command as core::str::FromStr>::from_str, stub_command_from_str)]
#[kani::stub(tracing::callsite::DefaultCallsite::interest, stub_tracing_interest)]
#[kani::stub(tracing::__macro_support::__is_enabled, stub_tracing_is_enabled)]
#[kani::stub(tracing::Event::dispatch, stub_tracing_dispatch)]
#[kani::stub(tracing::Span::new, stub_tracing_span_new)]
#[kani::unwind(5)]
fn c16_read_commands_stray_line_endings__bounded() {
    let data: [u8; N] = kani::any();
    let len: usize = kani::any();
    kani::assume(len <= N);
    let first_command: bool = kani::any();
    let mut recv_buffer = Vec::with_capacity(N);
    let mut i = 0;
    while i < len { recv_buffer.push(data[i]); i += 1; }
    // spec: position of the first LF, and whether it is preceded by CR
    let mut lf = N;
    let mut k = N;
    while k > 0 { k -= 1; if k < len && data[k] == b'\n' { lf = k; } }
    let stray = lf < N && (lf == 0 || data[lf - 1] != b'\r');
    let mut c = core::mem::ManuallyDrop::new(Common {
        socket: Split::new(Box::new(EofRead) as Box<dyn ReadHalf>, Box::new(NoWrite) as Box<dyn WriteHalf>),
        recv_buffer,
        #[cfg(unix)]
        received_fds: Vec::new(),
        cap_unix_fd: false,
        mechanism: AuthMechanism::External,
        first_command,
    });
    let waker = Waker::noop();
    let mut cx = TaskCx::from_waker(&waker);
    let mut fut = core::mem::ManuallyDrop::new(Box::pin(c.read_commands(1)));
    let r = fut.as_mut().poll(&mut cx);
    match &r {
        Poll::Ready(res) => {
            obl!("C16.read_commands.lf_without_cr_is_an_error", !stray || res.is_err());
            obl!("C16.read_commands.no_command_without_a_parsed_line", res.is_err()); // the parser stub rejects every line; EOF otherwise
        }
        Poll::Pending => { obl!("C16.read_commands.mock_futures_are_ready", false); }
    }
    kani::cover!(lf == 0, "cover.lf_is_first_byte");
    kani::cover!(stray && lf > 0, "cover.lf_after_non_cr");
    kani::cover!(lf < N && !stray, "cover.crlf_line");
    core::mem::forget(r);
}


#[cfg(all(kani, test))]
mod playback {
    use super::*;
    include!("/verif/.build/playback/zbus__connection__handshake__common.rs");
}
