// Contracts for zvariant/src/value.rs: equality / ordering / hashing / conversion laws of the dynamic `Value`
// (child module of `zvariant::value`).  One unit per PAIR of scalar variants with concrete discriminants and fully
// symbolic payloads (a symbolic discriminant makes CBMC walk the derived impls of every container variant: > 7 min).
// Container values (Array, Dict, Structure, Value(Box), Maybe) allocate and recurse: NOT under contract.
#![allow(unused_imports, dead_code, unused_macros)]
use super::*;
use core::cmp::Ordering as Ord_;
use core::mem::ManuallyDrop;
use std::hash::{Hash, Hasher};
include!("/verif/harness/common.rs");

/// loop-light FNV-style hasher local to the harness (std's SipHash is irrelevant to the law "equal => same hash":
/// the law must hold for EVERY hasher, and it is stated over the sequence of write calls)
struct Fnv(u64);
impl Hasher for Fnv {
    fn finish(&self) -> u64 { self.0 }
    fn write(&mut self, bytes: &[u8]) {
        let mut i = 0;
        while i < bytes.len() { self.0 = (self.0 ^ bytes[i] as u64).wrapping_mul(0x100000001b3); i += 1; }
    }
    fn write_u8(&mut self, v: u8) { self.0 = (self.0 ^ v as u64).wrapping_mul(0x100000001b3); }
    fn write_u16(&mut self, v: u16) { self.0 = (self.0 ^ v as u64 ^ 0x1600).wrapping_mul(0x100000001b3); }
    fn write_u32(&mut self, v: u32) { self.0 = (self.0 ^ v as u64 ^ 0x3200_0000_0000).wrapping_mul(0x100000001b3); }
    fn write_u64(&mut self, v: u64) { self.0 = (self.0 ^ v).wrapping_mul(0x100000001b3).rotate_left(7); }
    fn write_usize(&mut self, v: usize) { self.write_u64(v as u64) }
    fn write_i8(&mut self, v: i8) { self.write_u8(v as u8) }
    fn write_i16(&mut self, v: i16) { self.write_u16(v as u16) }
    fn write_i32(&mut self, v: i32) { self.write_u32(v as u32) }
    fn write_i64(&mut self, v: i64) { self.write_u64(v as u64) }
    fn write_isize(&mut self, v: isize) { self.write_u64(v as u64) }
}
fn h(v: &Value<'_>) -> u64 { let mut s = Fnv(0xcbf29ce484222325); v.hash(&mut s); s.finish() }
fn rev(o: Ord_) -> Ord_ { match o { Ord_::Less => Ord_::Greater, Ord_::Equal => Ord_::Equal, Ord_::Greater => Ord_::Less } }
fn is_nan_f64(v: &Value<'_>) -> bool { matches!(v, Value::F64(x) if x.is_nan()) }

// ---- contract (pair A x B): for all payloads x, y
//   eq symmetric ; cmp antisymmetric ; (cmp == Equal) <=> (==) ; == implies equal hashes ; partial_cmp agrees with cmp
macro_rules! pair_unit {
    ($name:ident, $va:ident, $ta:ty, $vb:ident, $tb:ty,
     $o_sym:literal, $o_anti:literal, $o_cons:literal, $o_hash:literal, $o_partial:literal, $o_cons_nan:literal) => {
        #[cfg(kani)]
        #[kani::proof]
        #[kani::stub(alloc::fmt::format, stub_format)]
        #[kani::unwind(10)]
        fn $name() {
            let x: $ta = kani::any();
            let y: $tb = kani::any();
            let a = ManuallyDrop::new(Value::$va(x));
            let b = ManuallyDrop::new(Value::$vb(y));
            let (a, b): (&Value<'_>, &Value<'_>) = (&a, &b);
            let eq_ab = a == b;
            let eq_ba = b == a;
            let c_ab = a.cmp(b);
            let c_ba = b.cmp(a);
            obl!($o_sym, eq_ab == eq_ba);
            obl!($o_anti, c_ab == rev(c_ba));
            // NaN payloads are a separate clause (so that the recorded finding about NaN cannot mask anything else)
            if is_nan_f64(a) || is_nan_f64(b) { obl!($o_cons_nan, (c_ab == Ord_::Equal) == eq_ab); }
            else { obl!($o_cons, (c_ab == Ord_::Equal) == eq_ab); }
            if eq_ab { obl!($o_hash, h(a) == h(b)); }
            if !is_nan_f64(a) && !is_nan_f64(b) { obl!($o_partial, a.partial_cmp(b) == Some(c_ab)); }
            kani::cover!(eq_ab || stringify!($va) != stringify!($vb), "cover.equal_pair_reachable_for_same_variant");
            kani::cover!(c_ab == Ord_::Less, "cover.less");
        }
    };
}

// ---- contract (single variant A): reflexivity, clone / to_owned preserve == and signature, signature table,
//      conversion back to the Rust type returns the original
macro_rules! single_unit {
    ($name:ident, $va:ident, $ta:ty, $code:expr,
     $o_refl:literal, $o_clone:literal, $o_owned:literal, $o_sig:literal, $o_conv:literal, $o_cmp_refl:literal, $o_refl_nan:literal) => {
        #[cfg(kani)]
        #[kani::proof]
        #[kani::stub(alloc::fmt::format, stub_format)]
        #[kani::unwind(10)]
        fn $name() {
            let x: $ta = kani::any();
            let a = ManuallyDrop::new(Value::$va(x));
            let ar: &Value<'_> = &a;
            if is_nan_f64(ar) { obl!($o_refl_nan, ar == ar); } else { obl!($o_refl, ar == ar); }
            obl!($o_cmp_refl, ar.cmp(ar) == Ord_::Equal);
            let c = ar.try_clone();
            if let Ok(cv) = &c {
                obl!($o_clone, (cv == ar || is_nan_f64(ar)) && h(cv) == h(ar) && core::ptr::eq(cv.value_signature(), ar.value_signature()));
            } else { obl!($o_clone, false); }
            core::mem::forget(c);
            let o = ar.try_to_owned();
            if let Ok(ov) = &o {
                let inner: &Value<'_> = &*ov;
                obl!($o_owned, (inner == ar || is_nan_f64(ar)) && core::ptr::eq(inner.value_signature(), ar.value_signature()));
            } else { obl!($o_owned, false); }
            core::mem::forget(o);
            // the reported signature is the D-Bus type code of the variant (specification: "Summary of types")
            let sig = ar.value_signature();
            obl!($o_sig, sig.string_len() == 1 && sig_is_code(sig, $code));
            // conversion: T -> Value -> T
            let v2 = ManuallyDrop::new(Value::from(x));
            let back = <$ta>::try_from(&*v2);
            match &back { Ok(t) => { obl!($o_conv, same_bits_v(*t, x)); } Err(_) => { obl!($o_conv, false); } }
            core::mem::forget(back);
            kani::cover!(true, "cover.reached");
        }
    };
}
trait Bits { fn bits(self) -> u64; }
impl Bits for u8 { fn bits(self) -> u64 { self as u64 } }
impl Bits for bool { fn bits(self) -> u64 { self as u64 } }
impl Bits for i16 { fn bits(self) -> u64 { self as u16 as u64 } }
impl Bits for u16 { fn bits(self) -> u64 { self as u64 } }
impl Bits for i32 { fn bits(self) -> u64 { self as u32 as u64 } }
impl Bits for u32 { fn bits(self) -> u64 { self as u64 } }
impl Bits for i64 { fn bits(self) -> u64 { self as u64 } }
impl Bits for u64 { fn bits(self) -> u64 { self } }
impl Bits for f64 { fn bits(self) -> u64 { self.to_bits() } }
fn same_bits_v<T: Bits>(a: T, b: T) -> bool { a.bits() == b.bits() }
// D-Bus specification, "Summary of types": type code of each basic type
fn sig_is_code(s: &Signature, code: u8) -> bool {
    match code {
        b'y' => matches!(s, Signature::U8), b'b' => matches!(s, Signature::Bool), b'n' => matches!(s, Signature::I16),
        b'q' => matches!(s, Signature::U16), b'i' => matches!(s, Signature::I32), b'u' => matches!(s, Signature::U32),
        b'x' => matches!(s, Signature::I64), b't' => matches!(s, Signature::U64), b'd' => matches!(s, Signature::F64),
        _ => false,
    }
}

// @unit C08.single.u8 props=C08 kind=complete fn=<zvariant::Value.as.PartialEq>::eq,<zvariant::Value.as.Ord>::cmp,zvariant::Value::try_clone,zvariant::Value::try_to_owned,zvariant::Value::value_signature,<u8.as.TryFrom<&Value>>::try_from timeout=1200
#[cfg(not(verif_skip_c08_single_u8__complete))]
single_unit!(c08_single_u8__complete, U8, u8, b'y',
    "C08.single.u8.eq_reflexive", "C08.single.u8.clone_preserves_eq_hash_signature", "C08.single.u8.to_owned_preserves_eq_signature", "C08.single.u8.signature_is_type_code", "C08.single.u8.conversion_round_trip", "C08.single.u8.cmp_reflexive", "C08.single.u8.eq_reflexive_for_nan");
// @unit C08.single.bool props=C08 kind=complete fn=<zvariant::Value.as.PartialEq>::eq,<zvariant::Value.as.Ord>::cmp,zvariant::Value::try_clone,zvariant::Value::try_to_owned,zvariant::Value::value_signature,<bool.as.TryFrom<&Value>>::try_from timeout=1200
#[cfg(not(verif_skip_c08_single_bool__complete))]
single_unit!(c08_single_bool__complete, Bool, bool, b'b',
    "C08.single.bool.eq_reflexive", "C08.single.bool.clone_preserves_eq_hash_signature", "C08.single.bool.to_owned_preserves_eq_signature", "C08.single.bool.signature_is_type_code", "C08.single.bool.conversion_round_trip", "C08.single.bool.cmp_reflexive", "C08.single.bool.eq_reflexive_for_nan");
// @unit C08.single.i16 props=C08 kind=complete fn=<zvariant::Value.as.PartialEq>::eq,<zvariant::Value.as.Ord>::cmp,zvariant::Value::try_clone,zvariant::Value::try_to_owned,zvariant::Value::value_signature,<i16.as.TryFrom<&Value>>::try_from timeout=1200
#[cfg(not(verif_skip_c08_single_i16__complete))]
single_unit!(c08_single_i16__complete, I16, i16, b'n',
    "C08.single.i16.eq_reflexive", "C08.single.i16.clone_preserves_eq_hash_signature", "C08.single.i16.to_owned_preserves_eq_signature", "C08.single.i16.signature_is_type_code", "C08.single.i16.conversion_round_trip", "C08.single.i16.cmp_reflexive", "C08.single.i16.eq_reflexive_for_nan");
// @unit C08.single.u16 props=C08 kind=complete fn=<zvariant::Value.as.PartialEq>::eq,<zvariant::Value.as.Ord>::cmp,zvariant::Value::try_clone,zvariant::Value::try_to_owned,zvariant::Value::value_signature,<u16.as.TryFrom<&Value>>::try_from timeout=1200
#[cfg(not(verif_skip_c08_single_u16__complete))]
single_unit!(c08_single_u16__complete, U16, u16, b'q',
    "C08.single.u16.eq_reflexive", "C08.single.u16.clone_preserves_eq_hash_signature", "C08.single.u16.to_owned_preserves_eq_signature", "C08.single.u16.signature_is_type_code", "C08.single.u16.conversion_round_trip", "C08.single.u16.cmp_reflexive", "C08.single.u16.eq_reflexive_for_nan");
// @unit C08.single.i32 props=C08 kind=complete fn=<zvariant::Value.as.PartialEq>::eq,<zvariant::Value.as.Ord>::cmp,zvariant::Value::try_clone,zvariant::Value::try_to_owned,zvariant::Value::value_signature,<i32.as.TryFrom<&Value>>::try_from timeout=1200
#[cfg(not(verif_skip_c08_single_i32__complete))]
single_unit!(c08_single_i32__complete, I32, i32, b'i',
    "C08.single.i32.eq_reflexive", "C08.single.i32.clone_preserves_eq_hash_signature", "C08.single.i32.to_owned_preserves_eq_signature", "C08.single.i32.signature_is_type_code", "C08.single.i32.conversion_round_trip", "C08.single.i32.cmp_reflexive", "C08.single.i32.eq_reflexive_for_nan");
// @unit C08.single.u32 props=C08 kind=complete fn=<zvariant::Value.as.PartialEq>::eq,<zvariant::Value.as.Ord>::cmp,zvariant::Value::try_clone,zvariant::Value::try_to_owned,zvariant::Value::value_signature,<u32.as.TryFrom<&Value>>::try_from timeout=1200
#[cfg(not(verif_skip_c08_single_u32__complete))]
single_unit!(c08_single_u32__complete, U32, u32, b'u',
    "C08.single.u32.eq_reflexive", "C08.single.u32.clone_preserves_eq_hash_signature", "C08.single.u32.to_owned_preserves_eq_signature", "C08.single.u32.signature_is_type_code", "C08.single.u32.conversion_round_trip", "C08.single.u32.cmp_reflexive", "C08.single.u32.eq_reflexive_for_nan");
// @unit C08.single.i64 props=C08 kind=complete fn=<zvariant::Value.as.PartialEq>::eq,<zvariant::Value.as.Ord>::cmp,zvariant::Value::try_clone,zvariant::Value::try_to_owned,zvariant::Value::value_signature,<i64.as.TryFrom<&Value>>::try_from timeout=1200
#[cfg(not(verif_skip_c08_single_i64__complete))]
single_unit!(c08_single_i64__complete, I64, i64, b'x',
    "C08.single.i64.eq_reflexive", "C08.single.i64.clone_preserves_eq_hash_signature", "C08.single.i64.to_owned_preserves_eq_signature", "C08.single.i64.signature_is_type_code", "C08.single.i64.conversion_round_trip", "C08.single.i64.cmp_reflexive", "C08.single.i64.eq_reflexive_for_nan");
// @unit C08.single.u64 props=C08 kind=complete fn=<zvariant::Value.as.PartialEq>::eq,<zvariant::Value.as.Ord>::cmp,zvariant::Value::try_clone,zvariant::Value::try_to_owned,zvariant::Value::value_signature,<u64.as.TryFrom<&Value>>::try_from timeout=1200
#[cfg(not(verif_skip_c08_single_u64__complete))]
single_unit!(c08_single_u64__complete, U64, u64, b't',
    "C08.single.u64.eq_reflexive", "C08.single.u64.clone_preserves_eq_hash_signature", "C08.single.u64.to_owned_preserves_eq_signature", "C08.single.u64.signature_is_type_code", "C08.single.u64.conversion_round_trip", "C08.single.u64.cmp_reflexive", "C08.single.u64.eq_reflexive_for_nan");
// @unit C08.single.f64 props=C08 kind=complete fn=<zvariant::Value.as.PartialEq>::eq,<zvariant::Value.as.Ord>::cmp,zvariant::Value::try_clone,zvariant::Value::try_to_owned,zvariant::Value::value_signature,<f64.as.TryFrom<&Value>>::try_from timeout=1200
#[cfg(not(verif_skip_c08_single_f64__complete))]
single_unit!(c08_single_f64__complete, F64, f64, b'd',
    "C08.single.f64.eq_reflexive", "C08.single.f64.clone_preserves_eq_hash_signature", "C08.single.f64.to_owned_preserves_eq_signature", "C08.single.f64.signature_is_type_code", "C08.single.f64.conversion_round_trip", "C08.single.f64.cmp_reflexive", "C08.single.f64.eq_reflexive_for_nan");
// @unit C08.pair.u8_u8 props=C08 kind=complete fn=<zvariant::Value.as.PartialEq>::eq,<zvariant::Value.as.Ord>::cmp,<zvariant::Value.as.Hash>::hash timeout=1800
#[cfg(not(verif_skip_c08_pair_u8_x_u8__complete))]
pair_unit!(c08_pair_u8_x_u8__complete, U8, u8, U8, u8,
    "C08.pair.u8_u8.eq_symmetric", "C08.pair.u8_u8.cmp_antisymmetric", "C08.pair.u8_u8.cmp_equal_iff_eq", "C08.pair.u8_u8.eq_implies_same_hash", "C08.pair.u8_u8.partial_cmp_agrees_with_cmp", "C08.pair.u8_u8.cmp_equal_iff_eq_with_nan");
// @unit C08.pair.u8_bool props=C08 kind=complete fn=<zvariant::Value.as.PartialEq>::eq,<zvariant::Value.as.Ord>::cmp,<zvariant::Value.as.Hash>::hash timeout=1800
#[cfg(not(verif_skip_c08_pair_u8_x_bool__complete))]
pair_unit!(c08_pair_u8_x_bool__complete, U8, u8, Bool, bool,
    "C08.pair.u8_bool.eq_symmetric", "C08.pair.u8_bool.cmp_antisymmetric", "C08.pair.u8_bool.cmp_equal_iff_eq", "C08.pair.u8_bool.eq_implies_same_hash", "C08.pair.u8_bool.partial_cmp_agrees_with_cmp", "C08.pair.u8_bool.cmp_equal_iff_eq_with_nan");
// @unit C08.pair.u8_i16 props=C08 kind=complete tier=thorough fn=<zvariant::Value.as.PartialEq>::eq,<zvariant::Value.as.Ord>::cmp,<zvariant::Value.as.Hash>::hash timeout=1800
#[cfg(not(verif_skip_c08_pair_u8_x_i16__complete))]
pair_unit!(c08_pair_u8_x_i16__complete, U8, u8, I16, i16,
    "C08.pair.u8_i16.eq_symmetric", "C08.pair.u8_i16.cmp_antisymmetric", "C08.pair.u8_i16.cmp_equal_iff_eq", "C08.pair.u8_i16.eq_implies_same_hash", "C08.pair.u8_i16.partial_cmp_agrees_with_cmp", "C08.pair.u8_i16.cmp_equal_iff_eq_with_nan");
// @unit C08.pair.u8_u16 props=C08 kind=complete tier=thorough fn=<zvariant::Value.as.PartialEq>::eq,<zvariant::Value.as.Ord>::cmp,<zvariant::Value.as.Hash>::hash timeout=1800
#[cfg(not(verif_skip_c08_pair_u8_x_u16__complete))]
pair_unit!(c08_pair_u8_x_u16__complete, U8, u8, U16, u16,
    "C08.pair.u8_u16.eq_symmetric", "C08.pair.u8_u16.cmp_antisymmetric", "C08.pair.u8_u16.cmp_equal_iff_eq", "C08.pair.u8_u16.eq_implies_same_hash", "C08.pair.u8_u16.partial_cmp_agrees_with_cmp", "C08.pair.u8_u16.cmp_equal_iff_eq_with_nan");
// @unit C08.pair.u8_i32 props=C08 kind=complete tier=thorough fn=<zvariant::Value.as.PartialEq>::eq,<zvariant::Value.as.Ord>::cmp,<zvariant::Value.as.Hash>::hash timeout=1800
#[cfg(not(verif_skip_c08_pair_u8_x_i32__complete))]
pair_unit!(c08_pair_u8_x_i32__complete, U8, u8, I32, i32,
    "C08.pair.u8_i32.eq_symmetric", "C08.pair.u8_i32.cmp_antisymmetric", "C08.pair.u8_i32.cmp_equal_iff_eq", "C08.pair.u8_i32.eq_implies_same_hash", "C08.pair.u8_i32.partial_cmp_agrees_with_cmp", "C08.pair.u8_i32.cmp_equal_iff_eq_with_nan");
// @unit C08.pair.u8_u32 props=C08 kind=complete tier=thorough fn=<zvariant::Value.as.PartialEq>::eq,<zvariant::Value.as.Ord>::cmp,<zvariant::Value.as.Hash>::hash timeout=1800
#[cfg(not(verif_skip_c08_pair_u8_x_u32__complete))]
pair_unit!(c08_pair_u8_x_u32__complete, U8, u8, U32, u32,
    "C08.pair.u8_u32.eq_symmetric", "C08.pair.u8_u32.cmp_antisymmetric", "C08.pair.u8_u32.cmp_equal_iff_eq", "C08.pair.u8_u32.eq_implies_same_hash", "C08.pair.u8_u32.partial_cmp_agrees_with_cmp", "C08.pair.u8_u32.cmp_equal_iff_eq_with_nan");
// @unit C08.pair.u8_i64 props=C08 kind=complete tier=thorough fn=<zvariant::Value.as.PartialEq>::eq,<zvariant::Value.as.Ord>::cmp,<zvariant::Value.as.Hash>::hash timeout=1800
#[cfg(not(verif_skip_c08_pair_u8_x_i64__complete))]
pair_unit!(c08_pair_u8_x_i64__complete, U8, u8, I64, i64,
    "C08.pair.u8_i64.eq_symmetric", "C08.pair.u8_i64.cmp_antisymmetric", "C08.pair.u8_i64.cmp_equal_iff_eq", "C08.pair.u8_i64.eq_implies_same_hash", "C08.pair.u8_i64.partial_cmp_agrees_with_cmp", "C08.pair.u8_i64.cmp_equal_iff_eq_with_nan");
// @unit C08.pair.u8_u64 props=C08 kind=complete tier=thorough fn=<zvariant::Value.as.PartialEq>::eq,<zvariant::Value.as.Ord>::cmp,<zvariant::Value.as.Hash>::hash timeout=1800
#[cfg(not(verif_skip_c08_pair_u8_x_u64__complete))]
pair_unit!(c08_pair_u8_x_u64__complete, U8, u8, U64, u64,
    "C08.pair.u8_u64.eq_symmetric", "C08.pair.u8_u64.cmp_antisymmetric", "C08.pair.u8_u64.cmp_equal_iff_eq", "C08.pair.u8_u64.eq_implies_same_hash", "C08.pair.u8_u64.partial_cmp_agrees_with_cmp", "C08.pair.u8_u64.cmp_equal_iff_eq_with_nan");
// @unit C08.pair.u8_f64 props=C08 kind=complete fn=<zvariant::Value.as.PartialEq>::eq,<zvariant::Value.as.Ord>::cmp,<zvariant::Value.as.Hash>::hash timeout=1800
#[cfg(not(verif_skip_c08_pair_u8_x_f64__complete))]
pair_unit!(c08_pair_u8_x_f64__complete, U8, u8, F64, f64,
    "C08.pair.u8_f64.eq_symmetric", "C08.pair.u8_f64.cmp_antisymmetric", "C08.pair.u8_f64.cmp_equal_iff_eq", "C08.pair.u8_f64.eq_implies_same_hash", "C08.pair.u8_f64.partial_cmp_agrees_with_cmp", "C08.pair.u8_f64.cmp_equal_iff_eq_with_nan");
// @unit C08.pair.bool_bool props=C08 kind=complete fn=<zvariant::Value.as.PartialEq>::eq,<zvariant::Value.as.Ord>::cmp,<zvariant::Value.as.Hash>::hash timeout=1800
#[cfg(not(verif_skip_c08_pair_bool_x_bool__complete))]
pair_unit!(c08_pair_bool_x_bool__complete, Bool, bool, Bool, bool,
    "C08.pair.bool_bool.eq_symmetric", "C08.pair.bool_bool.cmp_antisymmetric", "C08.pair.bool_bool.cmp_equal_iff_eq", "C08.pair.bool_bool.eq_implies_same_hash", "C08.pair.bool_bool.partial_cmp_agrees_with_cmp", "C08.pair.bool_bool.cmp_equal_iff_eq_with_nan");
// @unit C08.pair.bool_i16 props=C08 kind=complete tier=thorough fn=<zvariant::Value.as.PartialEq>::eq,<zvariant::Value.as.Ord>::cmp,<zvariant::Value.as.Hash>::hash timeout=1800
#[cfg(not(verif_skip_c08_pair_bool_x_i16__complete))]
pair_unit!(c08_pair_bool_x_i16__complete, Bool, bool, I16, i16,
    "C08.pair.bool_i16.eq_symmetric", "C08.pair.bool_i16.cmp_antisymmetric", "C08.pair.bool_i16.cmp_equal_iff_eq", "C08.pair.bool_i16.eq_implies_same_hash", "C08.pair.bool_i16.partial_cmp_agrees_with_cmp", "C08.pair.bool_i16.cmp_equal_iff_eq_with_nan");
// @unit C08.pair.bool_u16 props=C08 kind=complete tier=thorough fn=<zvariant::Value.as.PartialEq>::eq,<zvariant::Value.as.Ord>::cmp,<zvariant::Value.as.Hash>::hash timeout=1800
#[cfg(not(verif_skip_c08_pair_bool_x_u16__complete))]
pair_unit!(c08_pair_bool_x_u16__complete, Bool, bool, U16, u16,
    "C08.pair.bool_u16.eq_symmetric", "C08.pair.bool_u16.cmp_antisymmetric", "C08.pair.bool_u16.cmp_equal_iff_eq", "C08.pair.bool_u16.eq_implies_same_hash", "C08.pair.bool_u16.partial_cmp_agrees_with_cmp", "C08.pair.bool_u16.cmp_equal_iff_eq_with_nan");
// @unit C08.pair.bool_i32 props=C08 kind=complete tier=thorough fn=<zvariant::Value.as.PartialEq>::eq,<zvariant::Value.as.Ord>::cmp,<zvariant::Value.as.Hash>::hash timeout=1800
#[cfg(not(verif_skip_c08_pair_bool_x_i32__complete))]
pair_unit!(c08_pair_bool_x_i32__complete, Bool, bool, I32, i32,
    "C08.pair.bool_i32.eq_symmetric", "C08.pair.bool_i32.cmp_antisymmetric", "C08.pair.bool_i32.cmp_equal_iff_eq", "C08.pair.bool_i32.eq_implies_same_hash", "C08.pair.bool_i32.partial_cmp_agrees_with_cmp", "C08.pair.bool_i32.cmp_equal_iff_eq_with_nan");
// @unit C08.pair.bool_u32 props=C08 kind=complete tier=thorough fn=<zvariant::Value.as.PartialEq>::eq,<zvariant::Value.as.Ord>::cmp,<zvariant::Value.as.Hash>::hash timeout=1800
#[cfg(not(verif_skip_c08_pair_bool_x_u32__complete))]
pair_unit!(c08_pair_bool_x_u32__complete, Bool, bool, U32, u32,
    "C08.pair.bool_u32.eq_symmetric", "C08.pair.bool_u32.cmp_antisymmetric", "C08.pair.bool_u32.cmp_equal_iff_eq", "C08.pair.bool_u32.eq_implies_same_hash", "C08.pair.bool_u32.partial_cmp_agrees_with_cmp", "C08.pair.bool_u32.cmp_equal_iff_eq_with_nan");
// @unit C08.pair.bool_i64 props=C08 kind=complete tier=thorough fn=<zvariant::Value.as.PartialEq>::eq,<zvariant::Value.as.Ord>::cmp,<zvariant::Value.as.Hash>::hash timeout=1800
#[cfg(not(verif_skip_c08_pair_bool_x_i64__complete))]
pair_unit!(c08_pair_bool_x_i64__complete, Bool, bool, I64, i64,
    "C08.pair.bool_i64.eq_symmetric", "C08.pair.bool_i64.cmp_antisymmetric", "C08.pair.bool_i64.cmp_equal_iff_eq", "C08.pair.bool_i64.eq_implies_same_hash", "C08.pair.bool_i64.partial_cmp_agrees_with_cmp", "C08.pair.bool_i64.cmp_equal_iff_eq_with_nan");
// @unit C08.pair.bool_u64 props=C08 kind=complete tier=thorough fn=<zvariant::Value.as.PartialEq>::eq,<zvariant::Value.as.Ord>::cmp,<zvariant::Value.as.Hash>::hash timeout=1800
#[cfg(not(verif_skip_c08_pair_bool_x_u64__complete))]
pair_unit!(c08_pair_bool_x_u64__complete, Bool, bool, U64, u64,
    "C08.pair.bool_u64.eq_symmetric", "C08.pair.bool_u64.cmp_antisymmetric", "C08.pair.bool_u64.cmp_equal_iff_eq", "C08.pair.bool_u64.eq_implies_same_hash", "C08.pair.bool_u64.partial_cmp_agrees_with_cmp", "C08.pair.bool_u64.cmp_equal_iff_eq_with_nan");
// @unit C08.pair.bool_f64 props=C08 kind=complete tier=thorough fn=<zvariant::Value.as.PartialEq>::eq,<zvariant::Value.as.Ord>::cmp,<zvariant::Value.as.Hash>::hash timeout=1800
#[cfg(not(verif_skip_c08_pair_bool_x_f64__complete))]
pair_unit!(c08_pair_bool_x_f64__complete, Bool, bool, F64, f64,
    "C08.pair.bool_f64.eq_symmetric", "C08.pair.bool_f64.cmp_antisymmetric", "C08.pair.bool_f64.cmp_equal_iff_eq", "C08.pair.bool_f64.eq_implies_same_hash", "C08.pair.bool_f64.partial_cmp_agrees_with_cmp", "C08.pair.bool_f64.cmp_equal_iff_eq_with_nan");
// @unit C08.pair.i16_i16 props=C08 kind=complete fn=<zvariant::Value.as.PartialEq>::eq,<zvariant::Value.as.Ord>::cmp,<zvariant::Value.as.Hash>::hash timeout=1800
#[cfg(not(verif_skip_c08_pair_i16_x_i16__complete))]
pair_unit!(c08_pair_i16_x_i16__complete, I16, i16, I16, i16,
    "C08.pair.i16_i16.eq_symmetric", "C08.pair.i16_i16.cmp_antisymmetric", "C08.pair.i16_i16.cmp_equal_iff_eq", "C08.pair.i16_i16.eq_implies_same_hash", "C08.pair.i16_i16.partial_cmp_agrees_with_cmp", "C08.pair.i16_i16.cmp_equal_iff_eq_with_nan");
// @unit C08.pair.i16_u16 props=C08 kind=complete tier=thorough fn=<zvariant::Value.as.PartialEq>::eq,<zvariant::Value.as.Ord>::cmp,<zvariant::Value.as.Hash>::hash timeout=1800
#[cfg(not(verif_skip_c08_pair_i16_x_u16__complete))]
pair_unit!(c08_pair_i16_x_u16__complete, I16, i16, U16, u16,
    "C08.pair.i16_u16.eq_symmetric", "C08.pair.i16_u16.cmp_antisymmetric", "C08.pair.i16_u16.cmp_equal_iff_eq", "C08.pair.i16_u16.eq_implies_same_hash", "C08.pair.i16_u16.partial_cmp_agrees_with_cmp", "C08.pair.i16_u16.cmp_equal_iff_eq_with_nan");
// @unit C08.pair.i16_i32 props=C08 kind=complete tier=thorough fn=<zvariant::Value.as.PartialEq>::eq,<zvariant::Value.as.Ord>::cmp,<zvariant::Value.as.Hash>::hash timeout=1800
#[cfg(not(verif_skip_c08_pair_i16_x_i32__complete))]
pair_unit!(c08_pair_i16_x_i32__complete, I16, i16, I32, i32,
    "C08.pair.i16_i32.eq_symmetric", "C08.pair.i16_i32.cmp_antisymmetric", "C08.pair.i16_i32.cmp_equal_iff_eq", "C08.pair.i16_i32.eq_implies_same_hash", "C08.pair.i16_i32.partial_cmp_agrees_with_cmp", "C08.pair.i16_i32.cmp_equal_iff_eq_with_nan");
// @unit C08.pair.i16_u32 props=C08 kind=complete tier=thorough fn=<zvariant::Value.as.PartialEq>::eq,<zvariant::Value.as.Ord>::cmp,<zvariant::Value.as.Hash>::hash timeout=1800
#[cfg(not(verif_skip_c08_pair_i16_x_u32__complete))]
pair_unit!(c08_pair_i16_x_u32__complete, I16, i16, U32, u32,
    "C08.pair.i16_u32.eq_symmetric", "C08.pair.i16_u32.cmp_antisymmetric", "C08.pair.i16_u32.cmp_equal_iff_eq", "C08.pair.i16_u32.eq_implies_same_hash", "C08.pair.i16_u32.partial_cmp_agrees_with_cmp", "C08.pair.i16_u32.cmp_equal_iff_eq_with_nan");
// @unit C08.pair.i16_i64 props=C08 kind=complete tier=thorough fn=<zvariant::Value.as.PartialEq>::eq,<zvariant::Value.as.Ord>::cmp,<zvariant::Value.as.Hash>::hash timeout=1800
#[cfg(not(verif_skip_c08_pair_i16_x_i64__complete))]
pair_unit!(c08_pair_i16_x_i64__complete, I16, i16, I64, i64,
    "C08.pair.i16_i64.eq_symmetric", "C08.pair.i16_i64.cmp_antisymmetric", "C08.pair.i16_i64.cmp_equal_iff_eq", "C08.pair.i16_i64.eq_implies_same_hash", "C08.pair.i16_i64.partial_cmp_agrees_with_cmp", "C08.pair.i16_i64.cmp_equal_iff_eq_with_nan");
// @unit C08.pair.i16_u64 props=C08 kind=complete tier=thorough fn=<zvariant::Value.as.PartialEq>::eq,<zvariant::Value.as.Ord>::cmp,<zvariant::Value.as.Hash>::hash timeout=1800
#[cfg(not(verif_skip_c08_pair_i16_x_u64__complete))]
pair_unit!(c08_pair_i16_x_u64__complete, I16, i16, U64, u64,
    "C08.pair.i16_u64.eq_symmetric", "C08.pair.i16_u64.cmp_antisymmetric", "C08.pair.i16_u64.cmp_equal_iff_eq", "C08.pair.i16_u64.eq_implies_same_hash", "C08.pair.i16_u64.partial_cmp_agrees_with_cmp", "C08.pair.i16_u64.cmp_equal_iff_eq_with_nan");
// @unit C08.pair.i16_f64 props=C08 kind=complete tier=thorough fn=<zvariant::Value.as.PartialEq>::eq,<zvariant::Value.as.Ord>::cmp,<zvariant::Value.as.Hash>::hash timeout=1800
#[cfg(not(verif_skip_c08_pair_i16_x_f64__complete))]
pair_unit!(c08_pair_i16_x_f64__complete, I16, i16, F64, f64,
    "C08.pair.i16_f64.eq_symmetric", "C08.pair.i16_f64.cmp_antisymmetric", "C08.pair.i16_f64.cmp_equal_iff_eq", "C08.pair.i16_f64.eq_implies_same_hash", "C08.pair.i16_f64.partial_cmp_agrees_with_cmp", "C08.pair.i16_f64.cmp_equal_iff_eq_with_nan");
// @unit C08.pair.u16_u16 props=C08 kind=complete fn=<zvariant::Value.as.PartialEq>::eq,<zvariant::Value.as.Ord>::cmp,<zvariant::Value.as.Hash>::hash timeout=1800
#[cfg(not(verif_skip_c08_pair_u16_x_u16__complete))]
pair_unit!(c08_pair_u16_x_u16__complete, U16, u16, U16, u16,
    "C08.pair.u16_u16.eq_symmetric", "C08.pair.u16_u16.cmp_antisymmetric", "C08.pair.u16_u16.cmp_equal_iff_eq", "C08.pair.u16_u16.eq_implies_same_hash", "C08.pair.u16_u16.partial_cmp_agrees_with_cmp", "C08.pair.u16_u16.cmp_equal_iff_eq_with_nan");
// @unit C08.pair.u16_i32 props=C08 kind=complete tier=thorough fn=<zvariant::Value.as.PartialEq>::eq,<zvariant::Value.as.Ord>::cmp,<zvariant::Value.as.Hash>::hash timeout=1800
#[cfg(not(verif_skip_c08_pair_u16_x_i32__complete))]
pair_unit!(c08_pair_u16_x_i32__complete, U16, u16, I32, i32,
    "C08.pair.u16_i32.eq_symmetric", "C08.pair.u16_i32.cmp_antisymmetric", "C08.pair.u16_i32.cmp_equal_iff_eq", "C08.pair.u16_i32.eq_implies_same_hash", "C08.pair.u16_i32.partial_cmp_agrees_with_cmp", "C08.pair.u16_i32.cmp_equal_iff_eq_with_nan");
// @unit C08.pair.u16_u32 props=C08 kind=complete tier=thorough fn=<zvariant::Value.as.PartialEq>::eq,<zvariant::Value.as.Ord>::cmp,<zvariant::Value.as.Hash>::hash timeout=1800
#[cfg(not(verif_skip_c08_pair_u16_x_u32__complete))]
pair_unit!(c08_pair_u16_x_u32__complete, U16, u16, U32, u32,
    "C08.pair.u16_u32.eq_symmetric", "C08.pair.u16_u32.cmp_antisymmetric", "C08.pair.u16_u32.cmp_equal_iff_eq", "C08.pair.u16_u32.eq_implies_same_hash", "C08.pair.u16_u32.partial_cmp_agrees_with_cmp", "C08.pair.u16_u32.cmp_equal_iff_eq_with_nan");
// @unit C08.pair.u16_i64 props=C08 kind=complete tier=thorough fn=<zvariant::Value.as.PartialEq>::eq,<zvariant::Value.as.Ord>::cmp,<zvariant::Value.as.Hash>::hash timeout=1800
#[cfg(not(verif_skip_c08_pair_u16_x_i64__complete))]
pair_unit!(c08_pair_u16_x_i64__complete, U16, u16, I64, i64,
    "C08.pair.u16_i64.eq_symmetric", "C08.pair.u16_i64.cmp_antisymmetric", "C08.pair.u16_i64.cmp_equal_iff_eq", "C08.pair.u16_i64.eq_implies_same_hash", "C08.pair.u16_i64.partial_cmp_agrees_with_cmp", "C08.pair.u16_i64.cmp_equal_iff_eq_with_nan");
// @unit C08.pair.u16_u64 props=C08 kind=complete tier=thorough fn=<zvariant::Value.as.PartialEq>::eq,<zvariant::Value.as.Ord>::cmp,<zvariant::Value.as.Hash>::hash timeout=1800
#[cfg(not(verif_skip_c08_pair_u16_x_u64__complete))]
pair_unit!(c08_pair_u16_x_u64__complete, U16, u16, U64, u64,
    "C08.pair.u16_u64.eq_symmetric", "C08.pair.u16_u64.cmp_antisymmetric", "C08.pair.u16_u64.cmp_equal_iff_eq", "C08.pair.u16_u64.eq_implies_same_hash", "C08.pair.u16_u64.partial_cmp_agrees_with_cmp", "C08.pair.u16_u64.cmp_equal_iff_eq_with_nan");
// @unit C08.pair.u16_f64 props=C08 kind=complete tier=thorough fn=<zvariant::Value.as.PartialEq>::eq,<zvariant::Value.as.Ord>::cmp,<zvariant::Value.as.Hash>::hash timeout=1800
#[cfg(not(verif_skip_c08_pair_u16_x_f64__complete))]
pair_unit!(c08_pair_u16_x_f64__complete, U16, u16, F64, f64,
    "C08.pair.u16_f64.eq_symmetric", "C08.pair.u16_f64.cmp_antisymmetric", "C08.pair.u16_f64.cmp_equal_iff_eq", "C08.pair.u16_f64.eq_implies_same_hash", "C08.pair.u16_f64.partial_cmp_agrees_with_cmp", "C08.pair.u16_f64.cmp_equal_iff_eq_with_nan");
// @unit C08.pair.i32_i32 props=C08 kind=complete fn=<zvariant::Value.as.PartialEq>::eq,<zvariant::Value.as.Ord>::cmp,<zvariant::Value.as.Hash>::hash timeout=1800
#[cfg(not(verif_skip_c08_pair_i32_x_i32__complete))]
pair_unit!(c08_pair_i32_x_i32__complete, I32, i32, I32, i32,
    "C08.pair.i32_i32.eq_symmetric", "C08.pair.i32_i32.cmp_antisymmetric", "C08.pair.i32_i32.cmp_equal_iff_eq", "C08.pair.i32_i32.eq_implies_same_hash", "C08.pair.i32_i32.partial_cmp_agrees_with_cmp", "C08.pair.i32_i32.cmp_equal_iff_eq_with_nan");
// @unit C08.pair.i32_u32 props=C08 kind=complete fn=<zvariant::Value.as.PartialEq>::eq,<zvariant::Value.as.Ord>::cmp,<zvariant::Value.as.Hash>::hash timeout=1800
#[cfg(not(verif_skip_c08_pair_i32_x_u32__complete))]
pair_unit!(c08_pair_i32_x_u32__complete, I32, i32, U32, u32,
    "C08.pair.i32_u32.eq_symmetric", "C08.pair.i32_u32.cmp_antisymmetric", "C08.pair.i32_u32.cmp_equal_iff_eq", "C08.pair.i32_u32.eq_implies_same_hash", "C08.pair.i32_u32.partial_cmp_agrees_with_cmp", "C08.pair.i32_u32.cmp_equal_iff_eq_with_nan");
// @unit C08.pair.i32_i64 props=C08 kind=complete tier=thorough fn=<zvariant::Value.as.PartialEq>::eq,<zvariant::Value.as.Ord>::cmp,<zvariant::Value.as.Hash>::hash timeout=1800
#[cfg(not(verif_skip_c08_pair_i32_x_i64__complete))]
pair_unit!(c08_pair_i32_x_i64__complete, I32, i32, I64, i64,
    "C08.pair.i32_i64.eq_symmetric", "C08.pair.i32_i64.cmp_antisymmetric", "C08.pair.i32_i64.cmp_equal_iff_eq", "C08.pair.i32_i64.eq_implies_same_hash", "C08.pair.i32_i64.partial_cmp_agrees_with_cmp", "C08.pair.i32_i64.cmp_equal_iff_eq_with_nan");
// @unit C08.pair.i32_u64 props=C08 kind=complete tier=thorough fn=<zvariant::Value.as.PartialEq>::eq,<zvariant::Value.as.Ord>::cmp,<zvariant::Value.as.Hash>::hash timeout=1800
#[cfg(not(verif_skip_c08_pair_i32_x_u64__complete))]
pair_unit!(c08_pair_i32_x_u64__complete, I32, i32, U64, u64,
    "C08.pair.i32_u64.eq_symmetric", "C08.pair.i32_u64.cmp_antisymmetric", "C08.pair.i32_u64.cmp_equal_iff_eq", "C08.pair.i32_u64.eq_implies_same_hash", "C08.pair.i32_u64.partial_cmp_agrees_with_cmp", "C08.pair.i32_u64.cmp_equal_iff_eq_with_nan");
// @unit C08.pair.i32_f64 props=C08 kind=complete tier=thorough fn=<zvariant::Value.as.PartialEq>::eq,<zvariant::Value.as.Ord>::cmp,<zvariant::Value.as.Hash>::hash timeout=1800
#[cfg(not(verif_skip_c08_pair_i32_x_f64__complete))]
pair_unit!(c08_pair_i32_x_f64__complete, I32, i32, F64, f64,
    "C08.pair.i32_f64.eq_symmetric", "C08.pair.i32_f64.cmp_antisymmetric", "C08.pair.i32_f64.cmp_equal_iff_eq", "C08.pair.i32_f64.eq_implies_same_hash", "C08.pair.i32_f64.partial_cmp_agrees_with_cmp", "C08.pair.i32_f64.cmp_equal_iff_eq_with_nan");
// @unit C08.pair.u32_u32 props=C08 kind=complete fn=<zvariant::Value.as.PartialEq>::eq,<zvariant::Value.as.Ord>::cmp,<zvariant::Value.as.Hash>::hash timeout=1800
#[cfg(not(verif_skip_c08_pair_u32_x_u32__complete))]
pair_unit!(c08_pair_u32_x_u32__complete, U32, u32, U32, u32,
    "C08.pair.u32_u32.eq_symmetric", "C08.pair.u32_u32.cmp_antisymmetric", "C08.pair.u32_u32.cmp_equal_iff_eq", "C08.pair.u32_u32.eq_implies_same_hash", "C08.pair.u32_u32.partial_cmp_agrees_with_cmp", "C08.pair.u32_u32.cmp_equal_iff_eq_with_nan");
// @unit C08.pair.u32_i64 props=C08 kind=complete tier=thorough fn=<zvariant::Value.as.PartialEq>::eq,<zvariant::Value.as.Ord>::cmp,<zvariant::Value.as.Hash>::hash timeout=1800
#[cfg(not(verif_skip_c08_pair_u32_x_i64__complete))]
pair_unit!(c08_pair_u32_x_i64__complete, U32, u32, I64, i64,
    "C08.pair.u32_i64.eq_symmetric", "C08.pair.u32_i64.cmp_antisymmetric", "C08.pair.u32_i64.cmp_equal_iff_eq", "C08.pair.u32_i64.eq_implies_same_hash", "C08.pair.u32_i64.partial_cmp_agrees_with_cmp", "C08.pair.u32_i64.cmp_equal_iff_eq_with_nan");
// @unit C08.pair.u32_u64 props=C08 kind=complete tier=thorough fn=<zvariant::Value.as.PartialEq>::eq,<zvariant::Value.as.Ord>::cmp,<zvariant::Value.as.Hash>::hash timeout=1800
#[cfg(not(verif_skip_c08_pair_u32_x_u64__complete))]
pair_unit!(c08_pair_u32_x_u64__complete, U32, u32, U64, u64,
    "C08.pair.u32_u64.eq_symmetric", "C08.pair.u32_u64.cmp_antisymmetric", "C08.pair.u32_u64.cmp_equal_iff_eq", "C08.pair.u32_u64.eq_implies_same_hash", "C08.pair.u32_u64.partial_cmp_agrees_with_cmp", "C08.pair.u32_u64.cmp_equal_iff_eq_with_nan");
// @unit C08.pair.u32_f64 props=C08 kind=complete tier=thorough fn=<zvariant::Value.as.PartialEq>::eq,<zvariant::Value.as.Ord>::cmp,<zvariant::Value.as.Hash>::hash timeout=1800
#[cfg(not(verif_skip_c08_pair_u32_x_f64__complete))]
pair_unit!(c08_pair_u32_x_f64__complete, U32, u32, F64, f64,
    "C08.pair.u32_f64.eq_symmetric", "C08.pair.u32_f64.cmp_antisymmetric", "C08.pair.u32_f64.cmp_equal_iff_eq", "C08.pair.u32_f64.eq_implies_same_hash", "C08.pair.u32_f64.partial_cmp_agrees_with_cmp", "C08.pair.u32_f64.cmp_equal_iff_eq_with_nan");
// @unit C08.pair.i64_i64 props=C08 kind=complete fn=<zvariant::Value.as.PartialEq>::eq,<zvariant::Value.as.Ord>::cmp,<zvariant::Value.as.Hash>::hash timeout=1800
#[cfg(not(verif_skip_c08_pair_i64_x_i64__complete))]
pair_unit!(c08_pair_i64_x_i64__complete, I64, i64, I64, i64,
    "C08.pair.i64_i64.eq_symmetric", "C08.pair.i64_i64.cmp_antisymmetric", "C08.pair.i64_i64.cmp_equal_iff_eq", "C08.pair.i64_i64.eq_implies_same_hash", "C08.pair.i64_i64.partial_cmp_agrees_with_cmp", "C08.pair.i64_i64.cmp_equal_iff_eq_with_nan");
// @unit C08.pair.i64_u64 props=C08 kind=complete tier=thorough fn=<zvariant::Value.as.PartialEq>::eq,<zvariant::Value.as.Ord>::cmp,<zvariant::Value.as.Hash>::hash timeout=1800
#[cfg(not(verif_skip_c08_pair_i64_x_u64__complete))]
pair_unit!(c08_pair_i64_x_u64__complete, I64, i64, U64, u64,
    "C08.pair.i64_u64.eq_symmetric", "C08.pair.i64_u64.cmp_antisymmetric", "C08.pair.i64_u64.cmp_equal_iff_eq", "C08.pair.i64_u64.eq_implies_same_hash", "C08.pair.i64_u64.partial_cmp_agrees_with_cmp", "C08.pair.i64_u64.cmp_equal_iff_eq_with_nan");
// @unit C08.pair.i64_f64 props=C08 kind=complete fn=<zvariant::Value.as.PartialEq>::eq,<zvariant::Value.as.Ord>::cmp,<zvariant::Value.as.Hash>::hash timeout=1800
#[cfg(not(verif_skip_c08_pair_i64_x_f64__complete))]
pair_unit!(c08_pair_i64_x_f64__complete, I64, i64, F64, f64,
    "C08.pair.i64_f64.eq_symmetric", "C08.pair.i64_f64.cmp_antisymmetric", "C08.pair.i64_f64.cmp_equal_iff_eq", "C08.pair.i64_f64.eq_implies_same_hash", "C08.pair.i64_f64.partial_cmp_agrees_with_cmp", "C08.pair.i64_f64.cmp_equal_iff_eq_with_nan");
// @unit C08.pair.u64_u64 props=C08 kind=complete fn=<zvariant::Value.as.PartialEq>::eq,<zvariant::Value.as.Ord>::cmp,<zvariant::Value.as.Hash>::hash timeout=1800
#[cfg(not(verif_skip_c08_pair_u64_x_u64__complete))]
pair_unit!(c08_pair_u64_x_u64__complete, U64, u64, U64, u64,
    "C08.pair.u64_u64.eq_symmetric", "C08.pair.u64_u64.cmp_antisymmetric", "C08.pair.u64_u64.cmp_equal_iff_eq", "C08.pair.u64_u64.eq_implies_same_hash", "C08.pair.u64_u64.partial_cmp_agrees_with_cmp", "C08.pair.u64_u64.cmp_equal_iff_eq_with_nan");
// @unit C08.pair.u64_f64 props=C08 kind=complete fn=<zvariant::Value.as.PartialEq>::eq,<zvariant::Value.as.Ord>::cmp,<zvariant::Value.as.Hash>::hash timeout=1800
#[cfg(not(verif_skip_c08_pair_u64_x_f64__complete))]
pair_unit!(c08_pair_u64_x_f64__complete, U64, u64, F64, f64,
    "C08.pair.u64_f64.eq_symmetric", "C08.pair.u64_f64.cmp_antisymmetric", "C08.pair.u64_f64.cmp_equal_iff_eq", "C08.pair.u64_f64.eq_implies_same_hash", "C08.pair.u64_f64.partial_cmp_agrees_with_cmp", "C08.pair.u64_f64.cmp_equal_iff_eq_with_nan");
// @unit C08.pair.f64_f64 props=C08 kind=complete fn=<zvariant::Value.as.PartialEq>::eq,<zvariant::Value.as.Ord>::cmp,<zvariant::Value.as.Hash>::hash timeout=1800
#[cfg(not(verif_skip_c08_pair_f64_x_f64__complete))]
pair_unit!(c08_pair_f64_x_f64__complete, F64, f64, F64, f64,
    "C08.pair.f64_f64.eq_symmetric", "C08.pair.f64_f64.cmp_antisymmetric", "C08.pair.f64_f64.cmp_equal_iff_eq", "C08.pair.f64_f64.eq_implies_same_hash", "C08.pair.f64_f64.partial_cmp_agrees_with_cmp", "C08.pair.f64_f64.cmp_equal_iff_eq_with_nan");

// ---- string payloads (bounded): Value::Str x Value::Str, ASCII strings of length <= 2 -----------------------------------
// ensures  == symmetric ; cmp antisymmetric ; (cmp == Equal) <=> (==) <=> same bytes ; == implies equal hashes ;
//          reported signature is `s` ; &str -> Value -> &str returns the same string
// @unit C08.pair.str_str props=C08 kind=bounded bound=ASCII,L<=2 fn=<zvariant::Value.as.PartialEq>::eq,<zvariant::Value.as.Ord>::cmp,<zvariant::Value.as.Hash>::hash,zvariant::Value::value_signature timeout=1800
#[cfg(not(verif_skip_c08_pair_str_x_str__l2))]
#[cfg(kani)]
#[kani::proof]
#[kani::stub(alloc::fmt::format, stub_format)]
#[kani::unwind(12)]
fn c08_pair_str_x_str__l2() {
    let ba: [u8; 2] = kani::any();
    let bb: [u8; 2] = kani::any();
    kani::assume(ba[0] < 0x80 && ba[1] < 0x80 && bb[0] < 0x80 && bb[1] < 0x80);
    let la: usize = kani::any();
    let lb: usize = kani::any();
    kani::assume(la <= 2 && lb <= 2);
    let sa: &str = unsafe { core::str::from_utf8_unchecked(&ba[..la]) };
    let sb: &str = unsafe { core::str::from_utf8_unchecked(&bb[..lb]) };
    let a = ManuallyDrop::new(Value::Str(Str::from(sa)));
    let b = ManuallyDrop::new(Value::Str(Str::from(sb)));
    let (a, b): (&Value<'_>, &Value<'_>) = (&a, &b);
    let same = la == lb && (la < 1 || ba[0] == bb[0]) && (la < 2 || ba[1] == bb[1]);
    let eq_ab = a == b;
    let c_ab = a.cmp(b);
    obl!("C08.pair.str_str.eq_iff_same_bytes", eq_ab == same);
    obl!("C08.pair.str_str.eq_symmetric", eq_ab == (b == a));
    obl!("C08.pair.str_str.cmp_antisymmetric", c_ab == rev(b.cmp(a)));
    obl!("C08.pair.str_str.cmp_equal_iff_eq", (c_ab == Ord_::Equal) == eq_ab);
    if eq_ab { obl!("C08.pair.str_str.eq_implies_same_hash", h(a) == h(b)); }
    obl!("C08.pair.str_str.signature_is_s", matches!(a.value_signature(), Signature::Str));
    let back = <&str>::try_from(a);
    match &back { Ok(t) => { obl!("C08.pair.str_str.conversion_round_trip", t.len() == la && t.as_ptr() == sa.as_ptr()); }
                  Err(_) => { obl!("C08.pair.str_str.conversion_round_trip", false); } }
    core::mem::forget(back);
    kani::cover!(eq_ab && la == 2, "cover.equal_two_byte_strings");
    kani::cover!(c_ab == Ord_::Less && la == lb, "cover.less_same_length");
}

// ---- contract (C03 clause "invalid object paths ... inside variants are rejected"): ValueSeed::visit_borrowed_str ----
// This is where a dynamically typed consumer (`Value`) receives the string payload of an `o` / `g` / `s` typed value.
// requires v ASCII, length <= N (bounded)
// ensures  under signature `o`:  Ok  <=>  v is a valid object path (grammar of the specification)
include!("/verif/spec/names.rs");
static SIG_O_V: Signature = Signature::ObjectPath;
/// harness-local serde error type whose `custom` does not format its message (error text is not part of any contract)
#[derive(Debug)]
struct QuietErr;
impl core::fmt::Display for QuietErr { fn fmt(&self, _f: &mut core::fmt::Formatter<'_>) -> core::fmt::Result { Ok(()) } }
impl std::error::Error for QuietErr {}
impl serde::de::Error for QuietErr { fn custom<T: core::fmt::Display>(msg: T) -> Self { core::mem::forget(msg); QuietErr } } // never drop a zvariant::Error under CBMC (recursive drop glue)
// @unit C03.value_seed.object_path props=C03 kind=bounded bound=ASCII,N<=4 fn=<zvariant::value::ValueSeed.as.serde::de::Visitor>::visit_borrowed_str timeout=1800
#[cfg(not(verif_skip_c03_value_seed_object_path__n4))]
#[cfg(kani)]
#[kani::proof]
#[kani::stub(alloc::fmt::format, stub_format)]
#[kani::unwind(8)]
fn c03_value_seed_object_path__n4() {
    let buf: [u8; 4] = kani::any();
    let mut k = 0;
    while k < 4 { kani::assume(buf[k] < 0x80); k += 1; }
    let len: usize = kani::any();
    kani::assume(len <= 4);
    let s: &str = unsafe { core::str::from_utf8_unchecked(&buf[..len]) };
    let seed = ValueSeed::<Value<'_>> { signature: &SIG_O_V, phantom: core::marker::PhantomData };
    let r: core::result::Result<Value<'_>, QuietErr> = seed.visit_borrowed_str(s);
    let ok = r.is_ok();
    core::mem::forget(r);
    obl!("C03.value_seed.object_path.accepted_iff_valid_object_path", ok == spec_object_path(s.as_bytes()));
    kani::cover!(ok && len == 4, "cover.accepted");
    kani::cover!(!ok && len > 0 && buf[0] == b'/', "cover.rejected_with_leading_slash");
}

#[cfg(all(kani, test))]
mod playback {
    use super::*;
    include!("/verif/.build/playback/zvariant__value.rs");
}
