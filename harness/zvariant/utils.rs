// Contracts for zvariant/src/utils.rs  (child module of `zvariant::utils`, sees private items)
#![allow(unused_imports, dead_code)]
use super::*;
include!("/verif/harness/common.rs");
include!("/verif/spec/dbus.rs");

// ---- contract: padding_for_n_bytes -------------------------------------------------------------
// requires  align ∈ {1,2,4,8}   (every caller passes a D-Bus/GVariant alignment; see alignment units)
// ensures   r < align  ∧  (value + r) ≡ 0 (mod align)        (computed without wrap in u128)
//
// @unit C01.padding_for_n_bytes props=C01,C02,C03,C05 kind=complete fn=zvariant::utils::padding_for_n_bytes timeout=300
#[cfg(not(verif_skip_c01_padding_for_n_bytes__complete))]
#[cfg(kani)]
#[kani::proof]
fn c01_padding_for_n_bytes__complete() {
    let value: usize = kani::any();
    let align: usize = kani::any();
    kani::assume(align == 1 || align == 2 || align == 4 || align == 8);
    let r = padding_for_n_bytes(value, align);
    obl!("C01.padding_for_n_bytes.lt_align", r < align);
    obl!("C01.padding_for_n_bytes.aligned", (value as u128 + r as u128) % (align as u128) == 0);
    obl!("C01.padding_for_n_bytes.eq_spec", r == spec_pad(value, align));
    kani::cover!(r == 0, "cover.zero");
    kani::cover!(r == 7, "cover.seven");
}

// ---- canary: a deliberately false obligation; the runner requires it to FAIL on every run ------
// @unit CANARY.zvariant props=CANARY kind=complete expect=fail timeout=300
#[cfg(not(verif_skip_canary_zvariant_must_fail))]
#[cfg(kani)]
#[kani::proof]
fn canary_zvariant_must_fail() {
    let value: usize = kani::any();
    let r = padding_for_n_bytes(value, 8);
    obl!("C00.canary.deliberately_false", r != 5);
}

include!("/verif/harness/zvariant/gvariant.rs");

#[cfg(all(kani, test))]
mod playback {
    use super::*;
    include!("/verif/.build/playback/zvariant__utils.rs");
}
