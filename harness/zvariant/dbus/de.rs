// Contracts for zvariant/src/dbus/de.rs and the shared DeserializerCommon of zvariant/src/de.rs
// (child module of `zvariant::dbus::de`: sees ArrayDeserializer, StructureDeserializer, ValueDeserializer)
#![allow(unused_imports, dead_code, unused_variables, unused_mut)]
use super::*;
use crate::container_depths::ContainerDepths;
use crate::{Endian, Type};
use serde::Deserialize as _;
use std::os::fd::{AsRawFd, BorrowedFd};
include!("/verif/harness/common.rs");
include!("/verif/spec/dbus.rs");

type Fd0 = BorrowedFd<'static>;
type De<'de> = Deserializer<'de, 'static, 'static, Fd0>;
type DeC<'de> = DeserializerCommon<'de, 'static, 'static, Fd0>;

// Error-payload stubs (unchecked assumptions, listed in evidence): `Signature::clone` and `str::to_string`
// are only reached on SignatureMismatch error arms, where their results are stored in the error value and
// never inspected by any contract; replacing them keeps recursive clone/drop glue out of CBMC's way.
fn stub_sig_clone(_s: &Signature) -> Signature { Signature::Unit }
fn stub_str_to_string<T: ?Sized>(_s: &T) -> String { String::new() }

const MAX_POS: usize = usize::MAX / 4; // representation invariant: the buffer lies inside an addressable message

#[cfg(kani)]
fn any_endian() -> (Endian, bool) {
    let big: bool = kani::any();
    (if big { Endian::Big } else { Endian::Little }, big)
}

/// An arbitrary admissible deserializer state over `bytes`: any absolute position of the buffer inside the
/// message, any read position inside the buffer, either byte order.   (requires of every unit below)
#[cfg(kani)]
fn any_de<'de>(bytes: &'de [u8], signature: &'static Signature) -> (De<'de>, bool) {
    let (endian, big) = any_endian();
    let position: usize = kani::any();
    kani::assume(position <= MAX_POS);
    let pos: usize = kani::any();
    kani::assume(pos <= bytes.len());
    let de = Deserializer(DeserializerCommon {
        ctxt: Context::new_dbus(endian, position),
        bytes,
        fds: None,
        pos,
        signature,
        container_depths: ContainerDepths::default(),
    });
    (de, big)
}

// ------------------------------------------------------------------------------------------------
// contract stub of DeserializerCommon::parse_padding: exact, deterministic, loop-free (padding <= 7).
// Justified by unit C03.parse_padding (same run).  Used by callers so that they run at unwind(2).
// ------------------------------------------------------------------------------------------------
fn stub_parse_padding<'de: 'de, 'a: 'a, 'b: 'b, F>(
    this: &mut DeserializerCommon<'de, 'a, 'b, F>,
    alignment: usize,
) -> Result<usize> {
    assert!(alignment == 1 || alignment == 2 || alignment == 4 || alignment == 8,
            "C03.parse_padding.requires_valid_alignment");
    let p = spec_pad(this.ctxt.position() + this.pos, alignment);
    if p == 0 {
        return Ok(0);
    }
    if this.pos + p > this.bytes.len() {
        return Err(Error::OutOfBounds);
    }
    let b = this.bytes;
    let s = this.pos;
    let nz = b[s] != 0
        || (p > 1 && b[s + 1] != 0)
        || (p > 2 && b[s + 2] != 0)
        || (p > 3 && b[s + 3] != 0)
        || (p > 4 && b[s + 4] != 0)
        || (p > 5 && b[s + 5] != 0)
        || (p > 6 && b[s + 6] != 0);
    if nz {
        return Err(Error::PaddingNot0(1));
    }
    this.pos += p;
    Ok(p)
}

// ---- contract: DeserializerCommon::parse_padding ---------------------------------------------------
// requires pos <= len, align ∈ {1,2,4,8}
// ensures  Ok(p)  <=>  p = pad(position + pos, align) bytes exist at pos AND ARE ALL ZERO
//          Ok(p)  ==>  pos' = pos + p ;   Err ==> pos' = pos (nothing consumed)
macro_rules! parse_padding_unit {
    ($name:ident, $n:expr, $o_iff:literal, $o_val:literal, $o_frame:literal) => {
        #[cfg(kani)]
        #[kani::proof]
        #[kani::stub(alloc::fmt::format, stub_format)]
        #[kani::unwind(9)]
        fn $name() {
            let buf: [u8; $n] = kani::any();
            let len: usize = kani::any();
            kani::assume(len <= $n);
            let bytes = &buf[..len];
            let (mut de, _big) = any_de(bytes, u8::SIGNATURE);
            let align: usize = kani::any();
            kani::assume(align == 1 || align == 2 || align == 4 || align == 8);
            let pos0 = de.0.pos;
            let p = spec_pad(de.0.ctxt.position() + pos0, align);
            let expect_ok = spec_zero_padding(bytes, pos0, p);
            let r = de.0.parse_padding(align);
            obl!($o_iff, r.is_ok() == expect_ok);
            match &r {
                Ok(got) => { obl!($o_val, *got == p && de.0.pos == pos0 + p); }
                Err(_) => { obl!($o_frame, de.0.pos == pos0); }
            }
            kani::cover!(r.is_ok() && p == 7, "cover.ok_pad7");
            kani::cover!(r.is_err() && pos0 + p <= len, "cover.err_nonzero_padding");
            kani::cover!(r.is_err() && pos0 + p > len, "cover.err_short");
            core::mem::forget(r);
        }
    };
}
// @unit C03.parse_padding props=C03,C04,C02 kind=bounded bound=buffer<=16 fn=zvariant::de::DeserializerCommon::parse_padding timeout=1200
#[cfg(not(verif_skip_c03_parse_padding__n16))]
parse_padding_unit!(c03_parse_padding__n16, 16, "C03.parse_padding.ok_iff_zero_padding_present", "C03.parse_padding.value_and_advance", "C03.parse_padding.err_consumes_nothing");

// ---- contract: DeserializerCommon::next_slice ------------------------------------------------------
// requires pos <= len, n <= u32::MAX (all call sites pass a u8/u32 length or an alignment; usize is 64 bit)
// ensures  Ok(s) <=> pos + n <= len ;  s = bytes[pos..pos+n] ;  pos' = pos + n ;  Err ==> pos' = pos
// @unit C03.next_slice props=C03,C04,C02 kind=bounded bound=buffer<=16 fn=zvariant::de::DeserializerCommon::next_slice timeout=1200
#[cfg(not(verif_skip_c03_next_slice__n16))]
#[cfg(kani)]
#[kani::proof]
#[kani::stub(alloc::fmt::format, stub_format)]
#[kani::unwind(4)]
fn c03_next_slice__n16() {
    let buf: [u8; 16] = kani::any();
    let len: usize = kani::any();
    kani::assume(len <= 16);
    let bytes = &buf[..len];
    let (mut de, _big) = any_de(bytes, u8::SIGNATURE);
    let n: usize = kani::any();
    kani::assume(n <= u32::MAX as usize);
    let pos0 = de.0.pos;
    let r = de.0.next_slice(n);
    obl!("C03.next_slice.ok_iff_in_bounds", r.is_ok() == (pos0 + n <= len));
    match &r {
        Ok(s) => {
            obl!("C03.next_slice.exact_range", s.len() == n && s.as_ptr() == bytes[pos0..].as_ptr());
            obl!("C03.next_slice.advance", de.0.pos == pos0 + n);
        }
        Err(_) => { obl!("C03.next_slice.err_consumes_nothing", de.0.pos == pos0); }
    }
    kani::cover!(r.is_ok() && n == 16, "cover.ok_whole");
    kani::cover!(r.is_err(), "cover.err");
    core::mem::forget(r);
}

// ---- contract: fixed-size basic decoders (real serde path: T::deserialize(&mut dbus::Deserializer)) --
// requires pos <= len
// ensures  Ok(v) <=> pad(abs,A) zero bytes present ∧ A more bytes present [∧ word ∈ {0,1} for bool]
//          Ok(v) ==> v = spec decoding of those A bytes in the context's byte order ; pos' = pos + pad + A
//          Err   ==> (no claim on pos)
macro_rules! fixed_unit {
    ($name:ident, $n:expr, $ty:ty, $size:expr, $decode:expr, $valid:expr,
     $o_iff:literal, $o_val:literal, $o_adv:literal) => {
        #[cfg(kani)]
        #[kani::proof]
        #[kani::stub(alloc::fmt::format, stub_format)]
        #[kani::stub(DeserializerCommon::parse_padding, stub_parse_padding)]
        #[kani::unwind(3)]
        fn $name() {
            let buf: [u8; $n] = kani::any();
            let len: usize = kani::any();
            kani::assume(len <= $n);
            let bytes = &buf[..len];
            let (mut de, big) = any_de(bytes, <$ty as Type>::SIGNATURE);
            let pos0 = de.0.pos;
            let p = spec_pad(de.0.ctxt.position() + pos0, $size);
            let present = spec_zero_padding(bytes, pos0, p) && pos0 + p + $size <= len;
            let r = <$ty>::deserialize(&mut de);
            let valid_fn: fn(&[u8], bool) -> bool = $valid;
            let decode_fn: fn(&[u8], bool) -> $ty = $decode;
            let expect_ok = present && valid_fn(&bytes[pos0 + p..pos0 + p + $size], big);
            obl!($o_iff, r.is_ok() == expect_ok);
            if let Ok(v) = &r {
                let want = decode_fn(&bytes[pos0 + p..pos0 + p + $size], big);
                obl!($o_val, same_bits(*v, want));
                obl!($o_adv, de.0.pos == pos0 + p + $size);
            }
            kani::cover!(r.is_ok() && (p > 0 || $size == 1), "cover.ok_with_padding");
            kani::cover!(r.is_err(), "cover.err");
            core::mem::forget(r);
        }
    };
}
trait SameBits { fn bits(self) -> u64; }
impl SameBits for u8 { fn bits(self) -> u64 { self as u64 } }
impl SameBits for bool { fn bits(self) -> u64 { self as u64 } }
impl SameBits for u16 { fn bits(self) -> u64 { self as u64 } }
impl SameBits for i16 { fn bits(self) -> u64 { self as u16 as u64 } }
impl SameBits for u32 { fn bits(self) -> u64 { self as u64 } }
impl SameBits for i32 { fn bits(self) -> u64 { self as u32 as u64 } }
impl SameBits for u64 { fn bits(self) -> u64 { self } }
impl SameBits for i64 { fn bits(self) -> u64 { self as u64 } }
impl SameBits for f64 { fn bits(self) -> u64 { self.to_bits() } }
fn same_bits<T: SameBits>(a: T, b: T) -> bool { a.bits() == b.bits() }
fn always(_b: &[u8], _big: bool) -> bool { true }

// ---- probe seed: records the state of the NESTED deserializer a container mechanism hands to the element /
// field / payload seed, then decodes a T through it.  In these harnesses D is always `&mut dbus::Deserializer<Fd0>`
// (asserted on the size, read through a pointer cast) -- this makes "the child is created at the parent's
// position, under the right signature, WITH THE PARENT'S CONTAINER DEPTHS" an obligation instead of an assumption.
#[derive(Clone, Copy)]
struct ChildState { depths: (u8, u8, u8), pos: usize, sig: *const Signature, position: usize }
struct PeekSeed<'p, T> { out: &'p core::cell::Cell<Option<ChildState>>, _t: core::marker::PhantomData<T> }
impl<'p, T> PeekSeed<'p, T> {
    fn new(out: &'p core::cell::Cell<Option<ChildState>>) -> Self { PeekSeed { out, _t: core::marker::PhantomData } }
}
impl<'de, 'p, T: serde::Deserialize<'de>> DeserializeSeed<'de> for PeekSeed<'p, T> {
    type Value = T;
    fn deserialize<D: serde::Deserializer<'de>>(self, d: D) -> core::result::Result<T, D::Error> {
        assert!(core::mem::size_of::<D>() == core::mem::size_of::<&mut De<'de>>());
        {
            let child: &De<'de> = unsafe { &**(&d as *const D as *const &mut De<'de>) };
            self.out.set(Some(ChildState { depths: counters(&child.0.container_depths), pos: child.0.pos,
                                           sig: child.0.signature as *const Signature, position: child.0.ctxt.position() }));
        }
        T::deserialize(d)
    }
}

// @unit C03.de_u8 props=C03,C04 kind=bounded bound=buffer<=12 fn=<&mut.zvariant::dbus::Deserializer.as.serde::Deserializer>::deserialize_u8,zvariant::de::DeserializerCommon::next_const_size_slice stubs=C03.parse_padding timeout=1200
#[cfg(not(verif_skip_c03_de_u8__n12))]
fixed_unit!(c03_de_u8__n12, 12, u8, 1, |b, _| b[0], always, "C03.de_u8.ok_iff_valid_encoding", "C03.de_u8.value", "C03.de_u8.consumed");
// @unit C03.de_bool props=C03,C04 kind=bounded bound=buffer<=12 fn=<&mut.zvariant::dbus::Deserializer.as.serde::Deserializer>::deserialize_bool stubs=C03.parse_padding timeout=1200
#[cfg(not(verif_skip_c03_de_bool__n12))]
fixed_unit!(c03_de_bool__n12, 12, bool, 4, |b, big| spec_u32(b, big) == 1, |b, big| spec_u32(b, big) <= 1, "C03.de_bool.ok_iff_valid_encoding_0_or_1", "C03.de_bool.value", "C03.de_bool.consumed");
// @unit C03.de_i16 props=C03,C04 kind=bounded bound=buffer<=12 fn=<&mut.zvariant::dbus::Deserializer.as.serde::Deserializer>::deserialize_i16 stubs=C03.parse_padding timeout=1200
#[cfg(not(verif_skip_c03_de_i16__n12))]
fixed_unit!(c03_de_i16__n12, 12, i16, 2, |b, big| spec_u16(b, big) as i16, always, "C03.de_i16.ok_iff_valid_encoding", "C03.de_i16.value", "C03.de_i16.consumed");
// @unit C03.de_u16 props=C03,C04 kind=bounded bound=buffer<=12 fn=<&mut.zvariant::dbus::Deserializer.as.serde::Deserializer>::deserialize_u16 stubs=C03.parse_padding timeout=1200
#[cfg(not(verif_skip_c03_de_u16__n12))]
fixed_unit!(c03_de_u16__n12, 12, u16, 2, |b, big| spec_u16(b, big), always, "C03.de_u16.ok_iff_valid_encoding", "C03.de_u16.value", "C03.de_u16.consumed");
// @unit C03.de_i32 props=C03,C04 kind=bounded bound=buffer<=12 fn=<&mut.zvariant::dbus::Deserializer.as.serde::Deserializer>::deserialize_i32 stubs=C03.parse_padding timeout=1200
#[cfg(not(verif_skip_c03_de_i32__n12))]
fixed_unit!(c03_de_i32__n12, 12, i32, 4, |b, big| spec_u32(b, big) as i32, always, "C03.de_i32.ok_iff_valid_encoding", "C03.de_i32.value", "C03.de_i32.consumed");
// @unit C03.de_u32 props=C03,C04 kind=bounded bound=buffer<=12 fn=<&mut.zvariant::dbus::Deserializer.as.serde::Deserializer>::deserialize_u32 stubs=C03.parse_padding timeout=1200
#[cfg(not(verif_skip_c03_de_u32__n12))]
fixed_unit!(c03_de_u32__n12, 12, u32, 4, |b, big| spec_u32(b, big), always, "C03.de_u32.ok_iff_valid_encoding", "C03.de_u32.value", "C03.de_u32.consumed");
// @unit C03.de_i64 props=C03,C04 kind=bounded bound=buffer<=16 fn=<&mut.zvariant::dbus::Deserializer.as.serde::Deserializer>::deserialize_i64 stubs=C03.parse_padding timeout=1200
#[cfg(not(verif_skip_c03_de_i64__n16))]
fixed_unit!(c03_de_i64__n16, 16, i64, 8, |b, big| spec_u64(b, big) as i64, always, "C03.de_i64.ok_iff_valid_encoding", "C03.de_i64.value", "C03.de_i64.consumed");
// @unit C03.de_u64 props=C03,C04 kind=bounded bound=buffer<=16 fn=<&mut.zvariant::dbus::Deserializer.as.serde::Deserializer>::deserialize_u64 stubs=C03.parse_padding timeout=1200
#[cfg(not(verif_skip_c03_de_u64__n16))]
fixed_unit!(c03_de_u64__n16, 16, u64, 8, |b, big| spec_u64(b, big), always, "C03.de_u64.ok_iff_valid_encoding", "C03.de_u64.value", "C03.de_u64.consumed");
// @unit C03.de_f64 props=C03,C04 kind=bounded bound=buffer<=16 fn=<&mut.zvariant::dbus::Deserializer.as.serde::Deserializer>::deserialize_f64 stubs=C03.parse_padding timeout=1200
#[cfg(not(verif_skip_c03_de_f64__n16))]
fixed_unit!(c03_de_f64__n16, 16, f64, 8, |b, big| f64::from_bits(spec_u64(b, big)), always, "C03.de_f64.ok_iff_valid_encoding", "C03.de_f64.value", "C03.de_f64.consumed");

// ---- contract: deserialize_i32 under signature `h` (UNIX_FD) -----------------------------------------
// ensures Ok(fd) <=> padding zero ∧ 4 bytes present ∧ index < number of fds received with the message
//         Ok(fd) ==> fd is the descriptor at that index ; pos' = pos + pad + 4
// @unit C03.de_fd props=C03,C04,C02 kind=bounded bound=buffer<=12,fds<=3 fn=<&mut.zvariant::dbus::Deserializer.as.serde::Deserializer>::deserialize_i32,zvariant::de::DeserializerCommon::get_fd stubs=C03.parse_padding timeout=1200
#[cfg(not(verif_skip_c03_de_fd__n12))]
#[cfg(kani)]
#[kani::proof]
#[kani::stub(alloc::fmt::format, stub_format)]
#[kani::stub(DeserializerCommon::parse_padding, stub_parse_padding)]
#[kani::unwind(3)]
fn c03_de_fd__n12() {
    let buf: [u8; 12] = kani::any();
    let len: usize = kani::any();
    kani::assume(len <= 12);
    let bytes = &buf[..len];
    let raw: [i32; 3] = kani::any();
    kani::assume(raw[0] >= 0 && raw[1] >= 0 && raw[2] >= 0);
    let fds: [Fd0; 3] = unsafe { [BorrowedFd::borrow_raw(raw[0]), BorrowedFd::borrow_raw(raw[1]), BorrowedFd::borrow_raw(raw[2])] };
    let nfds: usize = kani::any();
    kani::assume(nfds <= 3);
    let have_fds: bool = kani::any();
    let fds_ref: &'static [Fd0] = unsafe { core::mem::transmute::<&[Fd0], &'static [Fd0]>(&fds[..nfds]) };
    let (mut de, big) = any_de(bytes, &Signature::Fd);
    de.0.fds = if have_fds { Some(fds_ref) } else { None };
    let pos0 = de.0.pos;
    let p = spec_pad(de.0.ctxt.position() + pos0, 4);
    let present = spec_zero_padding(bytes, pos0, p) && pos0 + p + 4 <= len;
    let r = i32::deserialize(&mut de);
    let idx = if present { spec_u32(&bytes[pos0 + p..pos0 + p + 4], big) as usize } else { 0 };
    obl!("C03.de_fd.ok_iff_valid_index", r.is_ok() == (present && have_fds && idx < nfds));
    if let Ok(v) = &r {
        obl!("C03.de_fd.value_is_indexed_fd", *v == raw[idx]);
        obl!("C03.de_fd.consumed", de.0.pos == pos0 + p + 4);
    }
    kani::cover!(r.is_ok() && idx == 2, "cover.ok_idx2");
    kani::cover!(r.is_err() && present, "cover.err_bad_index");
    core::mem::forget(r);
}

// ---- contract: deserialize_str under `s`/`o` (u32 length) and `g`/`v` (u8 length) ------------------------
// requires pos <= len
// ensures  Ok(s) ==> [s,o: pad(abs,4) zero bytes ∧] length word present ∧ L content bytes present
//                    ∧ TERMINATOR PRESENT ∧ TERMINATOR = 0 ∧ no interior NUL ∧ no 0xFF byte (never valid UTF-8)
//          Ok(s) ==> s = the L content bytes ; pos' = pos + pad + lenword + L + 1
//          (rejection side, over arbitrary bytes: unit de_str.<sig>;  acceptance side: unit de_str_accept.<sig>)
// Full UTF-8 validity is decided by core::str::from_utf8 (executed, trusted); the contract only pins that a
// byte that can never occur in UTF-8 is rejected and that ASCII content is accepted.
macro_rules! str_unit {
    ($name:ident, $n:expr, $sig:expr, $lenword:expr, $unwind:expr,
     $o_inb:literal, $o_term:literal, $o_nul:literal, $o_inul:literal, $o_utf8:literal, $o_val:literal, $o_adv:literal) => {
        #[cfg(kani)]
        #[kani::proof]
        #[kani::stub(alloc::fmt::format, stub_format)]
        #[kani::stub(DeserializerCommon::parse_padding, stub_parse_padding)]
        #[kani::unwind($unwind)]
        fn $name() {
            let buf: [u8; $n] = kani::any();
            let len: usize = kani::any();
            kani::assume(len <= $n);
            let bytes = &buf[..len];
            let (mut de, big) = any_de(bytes, $sig);
            let pos0 = de.0.pos;
            let lw: usize = $lenword;
            let p = if lw == 4 { spec_pad(de.0.ctxt.position() + pos0, 4) } else { 0 };
            let head_ok = spec_zero_padding(bytes, pos0, p) && pos0 + p + lw <= len;
            let l: usize = if head_ok {
                if lw == 4 { spec_u32(&bytes[pos0 + p..pos0 + p + 4], big) as usize } else { bytes[pos0 + p] as usize }
            } else { 0 };
            let start = pos0 + p + lw;
            let content_ok = head_ok && l <= len - start;
            let term_present = content_ok && start + l < len;
            let r = <&str>::deserialize(&mut de);
            if r.is_ok() {
                obl!($o_inb, content_ok);
                obl!($o_term, term_present);
                obl!($o_nul, bytes[start + l] == 0);
                let i: usize = kani::any();
                kani::assume(i < l);
                obl!($o_inul, bytes[start + i] != 0);
                obl!($o_utf8, bytes[start + i] != 0xff);
            }
            if let Ok(sv) = &r {
                obl!($o_val, sv.len() == l && sv.as_ptr() == bytes[start..].as_ptr());
                obl!($o_adv, de.0.pos == start + l + 1);
            }
            kani::cover!(r.is_ok() && l >= 1, "cover.ok_len1");
            kani::cover!(r.is_err() && content_ok, "cover.err_content");
            core::mem::forget(r);
        }
    };
}
// @unit C03.de_str.s props=C03,C04 kind=bounded bound=buffer<=8 fn=<&mut.zvariant::dbus::Deserializer.as.serde::Deserializer>::deserialize_str stubs=C03.parse_padding timeout=1800
#[cfg(not(verif_skip_c03_de_str_s__n8))]
str_unit!(c03_de_str_s__n8, 8, <&str as Type>::SIGNATURE, 4, 10,
    "C03.de_str.s.length_in_bounds", "C03.de_str.s.terminator_present", "C03.de_str.s.terminator_is_nul",
    "C03.de_str.s.no_interior_nul", "C03.de_str.s.rejects_0xff", "C03.de_str.s.value", "C03.de_str.s.consumed");
// @unit C03.de_str.o props=C03,C04 kind=bounded bound=buffer<=8 tier=thorough fn=<&mut.zvariant::dbus::Deserializer.as.serde::Deserializer>::deserialize_str stubs=C03.parse_padding timeout=1800
#[cfg(not(verif_skip_c03_de_str_o__n8))]
str_unit!(c03_de_str_o__n8, 8, &Signature::ObjectPath, 4, 10,
    "C03.de_str.o.length_in_bounds", "C03.de_str.o.terminator_present", "C03.de_str.o.terminator_is_nul",
    "C03.de_str.o.no_interior_nul", "C03.de_str.o.rejects_0xff", "C03.de_str.o.value", "C03.de_str.o.consumed");
// @unit C03.de_str.g props=C03,C04 kind=bounded bound=buffer<=5 fn=<&mut.zvariant::dbus::Deserializer.as.serde::Deserializer>::deserialize_str stubs=C03.parse_padding timeout=1800
#[cfg(not(verif_skip_c03_de_str_g__n5))]
str_unit!(c03_de_str_g__n5, 5, &Signature::Signature, 1, 7,
    "C03.de_str.g.length_in_bounds", "C03.de_str.g.terminator_present", "C03.de_str.g.terminator_is_nul",
    "C03.de_str.g.no_interior_nul", "C03.de_str.g.rejects_0xff", "C03.de_str.g.value", "C03.de_str.g.consumed");
// @unit C03.de_str.v props=C03,C04 kind=bounded bound=buffer<=5 tier=thorough fn=<&mut.zvariant::dbus::Deserializer.as.serde::Deserializer>::deserialize_str stubs=C03.parse_padding timeout=1800
#[cfg(not(verif_skip_c03_de_str_v__n5))]
str_unit!(c03_de_str_v__n5, 5, &Signature::Variant, 1, 7,
    "C03.de_str.v.length_in_bounds", "C03.de_str.v.terminator_present", "C03.de_str.v.terminator_is_nul",
    "C03.de_str.v.no_interior_nul", "C03.de_str.v.rejects_0xff", "C03.de_str.v.value", "C03.de_str.v.consumed");
// larger buffers in the thorough tier
// @unit C03.de_str.s.n12 props=C03,C04 kind=bounded bound=buffer<=12 tier=thorough fn=<&mut.zvariant::dbus::Deserializer.as.serde::Deserializer>::deserialize_str stubs=C03.parse_padding timeout=3600
#[cfg(not(verif_skip_c03_de_str_s__n12))]
str_unit!(c03_de_str_s__n12, 12, <&str as Type>::SIGNATURE, 4, 14,
    "C03.de_str.s.n12.length_in_bounds", "C03.de_str.s.n12.terminator_present", "C03.de_str.s.n12.terminator_is_nul",
    "C03.de_str.s.n12.no_interior_nul", "C03.de_str.s.n12.rejects_0xff", "C03.de_str.s.n12.value", "C03.de_str.s.n12.consumed");

// acceptance side: the spec encoding of an ASCII string of L <= MAXL bytes (any offset, either byte order)
// is accepted, yields exactly that string, and is consumed exactly.
macro_rules! str_accept_unit {
    ($name:ident, $maxl:expr, $sig:expr, $lenword:expr, $unwind:expr, $o_acc:literal, $o_val:literal, $o_adv:literal) => {
        #[cfg(kani)]
        #[kani::proof]
        #[kani::stub(alloc::fmt::format, stub_format)]
        #[kani::stub(DeserializerCommon::parse_padding, stub_parse_padding)]
        #[kani::unwind($unwind)]
        fn $name() {
            let (endian, big) = any_endian();
            let position: usize = kani::any();
            kani::assume(position <= MAX_POS);
            let lw: usize = $lenword;
            let p = if lw == 4 { spec_pad(position, 4) } else { 0 };
            let l: usize = kani::any();
            kani::assume(l <= $maxl);
            let content: [u8; $maxl] = kani::any();
            let mut buf = [0u8; 3 + 4 + $maxl + 1];
            let mut k = 0;
            while k < lw { buf[p + k] = spec_enc_byte(l as u64, lw, big, k); k += 1; }
            k = 0;
            while k < $maxl { if k < l { kani::assume(content[k] >= 1 && content[k] < 128); buf[p + lw + k] = content[k]; } k += 1; }
            let total = p + lw + l + 1;
            let bytes = &buf[..total];
            let mut de: De<'_> = Deserializer(DeserializerCommon {
                ctxt: Context::new_dbus(endian, position), bytes, fds: None, pos: 0,
                signature: $sig, container_depths: ContainerDepths::default(),
            });
            let r = <&str>::deserialize(&mut de);
            obl!($o_acc, r.is_ok());
            if let Ok(sv) = &r {
                let i: usize = kani::any();
                kani::assume(i < l);
                obl!($o_val, sv.len() == l && sv.as_bytes()[i] == content[i]);
                obl!($o_adv, de.0.pos == total);
            }
            kani::cover!(l == $maxl && (p == 3 || lw == 1), "cover.max_len_pad3");
            core::mem::forget(r);
        }
    };
}
// @unit C03.de_str_accept.s props=C03,C02 kind=bounded bound=ASCII,L<=3 fn=<&mut.zvariant::dbus::Deserializer.as.serde::Deserializer>::deserialize_str stubs=C03.parse_padding timeout=1800
#[cfg(not(verif_skip_c03_de_str_accept_s__l3))]
str_accept_unit!(c03_de_str_accept_s__l3, 3, <&str as Type>::SIGNATURE, 4, 6, "C03.de_str_accept.s.accepted", "C03.de_str_accept.s.value", "C03.de_str_accept.s.consumed");
// @unit C03.de_str_accept.g props=C03,C02 kind=bounded bound=ASCII,L<=3 fn=<&mut.zvariant::dbus::Deserializer.as.serde::Deserializer>::deserialize_str stubs=C03.parse_padding timeout=1800
#[cfg(not(verif_skip_c03_de_str_accept_g__l3))]
str_accept_unit!(c03_de_str_accept_g__l3, 3, &Signature::Signature, 1, 6, "C03.de_str_accept.g.accepted", "C03.de_str_accept.g.value", "C03.de_str_accept.g.consumed");

// ================================================================================================
// Container mechanisms, each proved IN ISOLATION from an arbitrary admissible state (DESIGN §2.5).
// ================================================================================================
static SIG_Y: Signature = Signature::U8;
static SIG_U: Signature = Signature::U32;
static SIG_T: Signature = Signature::U64;
static SIG_I: Signature = Signature::I32;
static SIG_H: Signature = Signature::Fd;
static SIG_AY: Signature = Signature::static_array(&SIG_Y);
static SIG_AU: Signature = Signature::static_array(&SIG_U);
static SIG_AT: Signature = Signature::static_array(&SIG_T);
static SIG_DICT_IH: Signature = Signature::static_dict(&SIG_I, &SIG_H);
static SIG_STRUCT_IH: Signature = Signature::static_structure(&[&SIG_I, &SIG_H]);
static SIG_STRUCT_YT: Signature = Signature::static_structure(&[&SIG_Y, &SIG_T]);

use crate::container_depths::zbus_verif::{counters, mk_depths, wf_depths};

/// any nesting state satisfying the representation invariant of ContainerDepths (C07 units prove that the
/// inc_/dec_ operations preserve it)
#[cfg(kani)]
fn any_wf_depths() -> ContainerDepths {
    let d = mk_depths(kani::any(), kani::any(), kani::any());
    kani::assume(wf_depths(&d));
    d
}

// ---- contract: ArrayDeserializer::new ------------------------------------------------------------------
// requires pos <= len, signature = a<child> (child alignment A) or a{kv} (entry alignment 8)
// ensures  Ok(ad) <=> pad(abs,4) zero ∧ u32 length L present ∧ pad(abs',A) zero bytes present (EVEN IF L = 0)
//                      ∧ array depth not exceeded
//          Ok(ad) ==> ad.len = L (context byte order) ; ad.start = de.pos = pos + p1 + 4 + p2 ;
//                     ad.element_alignment = A ; de.signature = child ; ad.array_signature = a<child> ;
//                     depths.array + 1
macro_rules! array_new_unit {
    ($name:ident, $n:expr, $sig:expr, $child:expr, $align:expr,
     $o_iff:literal, $o_len:literal, $o_start:literal, $o_sig:literal, $o_depth:literal) => {
        #[cfg(kani)]
        #[kani::proof]
        #[kani::stub(alloc::fmt::format, stub_format)]
        #[kani::stub(DeserializerCommon::parse_padding, stub_parse_padding)]
        #[kani::stub(<Signature as std::clone::Clone>::clone, stub_sig_clone)]
        #[kani::stub(<str as std::string::ToString>::to_string, stub_str_to_string)]
        #[kani::unwind(2)]
        fn $name() {
            let buf: [u8; $n] = kani::any();
            let len: usize = kani::any();
            kani::assume(len <= $n);
            let bytes = &buf[..len];
            let (mut de, big) = any_de(bytes, $sig);
            de.0.container_depths = any_wf_depths();
            // (never drop an `Error` in harness code: the recursive drop glue of Signature dominates CBMC's cost)
            let (ds, da, dv) = counters(&de.0.container_depths);
            let depth_ok = spec_depth_ok(ds as u32, da as u32 + 1, dv as u32, 0);
            let pos0 = de.0.pos;
            let position = de.0.ctxt.position();
            let p1 = spec_pad(position + pos0, 4);
            let head = spec_zero_padding(bytes, pos0, p1) && pos0 + p1 + 4 <= len;
            let after = pos0 + p1 + 4;
            let p2 = spec_pad(position + after, $align);
            let expect_ok = head && depth_ok && spec_zero_padding(bytes, after, p2);
            let l = if head { spec_u32(&bytes[pos0 + p1..after], big) as usize } else { 0 };
            let arrays_before = de.0.container_depths;
            let r = ArrayDeserializer::new(&mut de);
            obl!($o_iff, r.is_ok() == expect_ok);
            if let Ok(ad) = &r {
                obl!($o_len, ad.len == l);
                obl!($o_start, ad.start == after + p2 && ad.de.0.pos == after + p2 && ad.element_alignment == $align);
                obl!($o_sig, core::ptr::eq(ad.de.0.signature, $child) && core::ptr::eq(ad.array_signature, $sig));
                let (s0, a0, v0) = counters(&arrays_before);
                obl!($o_depth, counters(&ad.de.0.container_depths) == (s0, a0 + 1, v0));
            }
            kani::cover!(r.is_ok() && l == 0 && (p2 > 0 || $align == 4), "cover.ok_empty_with_first_padding");
            kani::cover!((r.is_err() && head && depth_ok) || $align == 4, "cover.err_first_element_padding");
            kani::cover!(r.is_err() && head && !depth_ok, "cover.err_depth");
            core::mem::forget(r);
        }
    };
}
// @unit C03.array_new.at props=C02,C03,C04,C07 kind=bounded bound=buffer<=16,elem=t fn=zvariant::dbus::de::ArrayDeserializer::new stubs=C03.parse_padding,C07.inc_array timeout=1800
#[cfg(not(verif_skip_c03_array_new_at__n16))]
array_new_unit!(c03_array_new_at__n16, 16, &SIG_AT, &SIG_T, 8, "C03.array_new.at.ok_iff_valid_header", "C03.array_new.at.len", "C03.array_new.at.start_and_alignment", "C03.array_new.at.signature_switch", "C03.array_new.at.depth_incremented");
// @unit C03.array_new.au props=C02,C03,C04,C07 kind=bounded bound=buffer<=12,elem=u fn=zvariant::dbus::de::ArrayDeserializer::new stubs=C03.parse_padding,C07.inc_array timeout=1800
#[cfg(not(verif_skip_c03_array_new_au__n12))]
array_new_unit!(c03_array_new_au__n12, 12, &SIG_AU, &SIG_U, 4, "C03.array_new.au.ok_iff_valid_header", "C03.array_new.au.len", "C03.array_new.au.start_and_alignment", "C03.array_new.au.signature_switch", "C03.array_new.au.depth_incremented");
// @unit C03.array_new.dict props=C02,C03,C04,C07 kind=bounded bound=buffer<=16,entry={ih} fn=zvariant::dbus::de::ArrayDeserializer::new stubs=C03.parse_padding,C07.inc_array timeout=1800
#[cfg(not(verif_skip_c03_array_new_dict__n16))]
array_new_unit!(c03_array_new_dict__n16, 16, &SIG_DICT_IH, &SIG_I, 8, "C03.array_new.dict.ok_iff_valid_header", "C03.array_new.dict.len", "C03.array_new.dict.start_and_alignment", "C03.array_new.dict.signature_switch", "C03.array_new.dict.depth_incremented");

// ---- contract: ArrayDeserializer::{next_element, next, done, end} from ANY admissible array state ---------
// state: start <= pos, len <= u32::MAX  (what `new` establishes; pos may already be past start+len)
// ensures  pos = start+len            ==> Ok(None) ; depth.array - 1 ; signature restored to the array's
//          otherwise  Ok(Some(v))     <=> element padding (alignment A) zero ∧ element encoding valid
//                                          ∧ THE ELEMENT ENDS AT OR BEFORE start+len
//          Ok(Some(v)) ==> v = spec decoding ; pos' = padded pos + size
//          (so an array length that does not land on an element boundary is rejected)
macro_rules! array_next_unit {
    ($name:ident, $n:expr, $arr:expr, $child:expr, $ty:ty, $size:expr, $decode:expr,
     $o_none:literal, $o_end:literal, $o_some_iff:literal, $o_val:literal, $o_bound:literal) => {
        #[cfg(kani)]
        #[kani::proof]
        #[kani::stub(alloc::fmt::format, stub_format)]
        #[kani::stub(DeserializerCommon::parse_padding, stub_parse_padding)]
        #[kani::stub(<Signature as std::clone::Clone>::clone, stub_sig_clone)]
        #[kani::stub(<str as std::string::ToString>::to_string, stub_str_to_string)]
        #[kani::unwind(2)]
        fn $name() {
            let buf: [u8; $n] = kani::any();
            let len: usize = kani::any();
            kani::assume(len <= $n);
            let bytes = &buf[..len];
            let (mut de, big) = any_de(bytes, $child);
            let d0 = any_wf_depths();
            let (s0, a0, v0) = counters(&d0);
            kani::assume(a0 >= 1); // inside an array
            de.0.container_depths = d0;
            let pos0 = de.0.pos;
            let position = de.0.ctxt.position();
            let start: usize = kani::any();
            let alen: usize = kani::any();
            kani::assume(start <= pos0 && alen <= u32::MAX as usize);
            let end = start + alen;
            let mut ad = ArrayDeserializer { de: &mut de, len: alen, start, element_alignment: $size, array_signature: $arr };
            let cell = core::cell::Cell::new(None);
            let r = ad.next_element(PeekSeed::<$ty>::new(&cell));
            if let Some(c) = cell.get() {
                let c: ChildState = c;
                assert!(c.depths == (s0, a0, v0), "C07.array_next.nested_inherits_parent_depth_incl_this_array");
                assert!(core::ptr::eq(c.sig, $child), "C03.array_next.nested_signature_is_element_signature");
            }
            let p = spec_pad(position + pos0, $size);
            let present = spec_zero_padding(bytes, pos0, p) && pos0 + p + $size <= len;
            let decode_fn: fn(&[u8], bool) -> $ty = $decode;
            if pos0 == end {
                obl!($o_none, matches!(r, Ok(None)) && ad.de.0.pos == pos0);
                obl!($o_end, counters(&ad.de.0.container_depths) == (s0, a0 - 1, v0) && core::ptr::eq(ad.de.0.signature, $arr));
            } else {
                obl!($o_none, !matches!(r, Ok(None)));
                obl!($o_some_iff, r.is_ok() == (present && pos0 + p + $size <= end));
                if let Ok(Some(v)) = &r {
                    obl!($o_val, same_bits(*v, decode_fn(&bytes[pos0 + p..pos0 + p + $size], big)) && ad.de.0.pos == pos0 + p + $size);
                    obl!($o_bound, ad.de.0.pos <= end);
                }
            }
            kani::cover!(matches!(r, Ok(None)), "cover.none");
            kani::cover!(matches!(r, Ok(Some(_))) && p > 0, "cover.some_with_padding");
            kani::cover!(r.is_err() && present, "cover.err_element_crosses_end");
            core::mem::forget(r);
        }
    };
}
// @unit C03.array_next.at props=C02,C03,C04,C07 kind=bounded bound=buffer<=16,elem=t fn=zvariant::dbus::de::ArrayDeserializer::next_element,zvariant::dbus::de::ArrayDeserializer::next,zvariant::dbus::de::ArrayDeserializer::done,zvariant::dbus::de::ArrayDeserializer::end stubs=C03.parse_padding timeout=1800
#[cfg(not(verif_skip_c03_array_next_at__n16))]
array_next_unit!(c03_array_next_at__n16, 16, &SIG_AT, &SIG_T, u64, 8, |b, big| spec_u64(b, big),
    "C03.array_next.at.none_iff_at_end", "C03.array_next.at.end_restores_depth_and_signature", "C03.array_next.at.some_iff_valid_element_within_array", "C03.array_next.at.value_and_advance", "C03.array_next.at.never_past_array_end");
// @unit C03.array_next.au props=C02,C03,C04,C07 kind=bounded bound=buffer<=12,elem=u fn=zvariant::dbus::de::ArrayDeserializer::next_element,zvariant::dbus::de::ArrayDeserializer::next stubs=C03.parse_padding timeout=1800
#[cfg(not(verif_skip_c03_array_next_au__n12))]
array_next_unit!(c03_array_next_au__n12, 12, &SIG_AU, &SIG_U, u32, 4, |b, big| spec_u32(b, big),
    "C03.array_next.au.none_iff_at_end", "C03.array_next.au.end_restores_depth_and_signature", "C03.array_next.au.some_iff_valid_element_within_array", "C03.array_next.au.value_and_advance", "C03.array_next.au.never_past_array_end");

// ---- contract: ArrayMapDeserializer::{new, next_key_seed, next_value_seed}  (dict a{ih}) ---------------------
// The value is an `h` (fd index) and the key an `i`: i32::deserialize behaves differently under the two
// signatures (plain word vs. index into the fd table), so a missing key/value signature swap is observable.
// ensures new: key/value signatures taken from the dict signature, array header parsed with entry alignment 8
//         next_value_seed: value decoded UNDER THE VALUE SIGNATURE ; afterwards signature = key signature
//                          (also on error) ; a value that ends past the array end is rejected
// @unit C03.map_value props=C02,C03,C04 kind=bounded bound=buffer<=12,dict=a{ih} fn=<zvariant::dbus::de::ArrayMapDeserializer.as.serde::de::MapAccess>::next_value_seed,zvariant::dbus::de::ArrayDeserializer::next stubs=C03.parse_padding timeout=1800
#[cfg(not(verif_skip_c03_map_value__n12))]
#[cfg(kani)]
#[kani::proof]
#[kani::stub(alloc::fmt::format, stub_format)]
#[kani::stub(DeserializerCommon::parse_padding, stub_parse_padding)]
#[kani::stub(<Signature as std::clone::Clone>::clone, stub_sig_clone)]
#[kani::stub(<str as std::string::ToString>::to_string, stub_str_to_string)]
#[kani::unwind(2)]
fn c03_map_value__n12() {
    let buf: [u8; 12] = kani::any();
    let len: usize = kani::any();
    kani::assume(len <= 12);
    let bytes = &buf[..len];
    let raw: [i32; 2] = kani::any();
    kani::assume(raw[0] >= 0 && raw[1] >= 0);
    let fds: [Fd0; 2] = unsafe { [BorrowedFd::borrow_raw(raw[0]), BorrowedFd::borrow_raw(raw[1])] };
    let fds_ref: &'static [Fd0] = unsafe { core::mem::transmute::<&[Fd0], &'static [Fd0]>(&fds[..]) };
    let (mut de, big) = any_de(bytes, &SIG_I);
    de.0.fds = Some(fds_ref);
    de.0.container_depths = mk_depths(0, 1, 0);
    let pos0 = de.0.pos;
    let position = de.0.ctxt.position();
    let start: usize = kani::any();
    let alen: usize = kani::any();
    kani::assume(start <= pos0 && alen <= u32::MAX as usize);
    let end = start + alen;
    let ad = ArrayDeserializer { de: &mut de, len: alen, start, element_alignment: 8, array_signature: &SIG_DICT_IH };
    let mut md = ArrayMapDeserializer { ad, key_signature: &SIG_I, value_signature: &SIG_H };
    let r = md.next_value_seed(core::marker::PhantomData::<i32>);
    let p = spec_pad(position + pos0, 4);
    let present = spec_zero_padding(bytes, pos0, p) && pos0 + p + 4 <= len;
    let idx = if present { spec_u32(&bytes[pos0 + p..pos0 + p + 4], big) as usize } else { 0 };
    obl!("C03.map_value.signature_restored_to_key", core::ptr::eq(md.ad.de.0.signature, &SIG_I));
    obl!("C03.map_value.ok_iff_valid_fd_index_within_array", r.is_ok() == (present && idx < 2 && pos0 + p + 4 <= end));
    if let Ok(v) = &r {
        obl!("C03.map_value.decoded_under_value_signature", *v == raw[idx]);
    }
    kani::cover!(r.is_ok(), "cover.ok");
    kani::cover!(r.is_err() && present && idx < 2, "cover.err_past_end");
    core::mem::forget(r);
}

// @unit C03.map_new props=C02,C03,C04,C07 kind=bounded bound=buffer<=16,dict=a{ih} fn=zvariant::dbus::de::ArrayMapDeserializer::new stubs=C03.parse_padding,C03.array_new.dict timeout=1800
#[cfg(not(verif_skip_c03_map_new__n16))]
#[cfg(kani)]
#[kani::proof]
#[kani::stub(alloc::fmt::format, stub_format)]
#[kani::stub(DeserializerCommon::parse_padding, stub_parse_padding)]
#[kani::stub(<Signature as std::clone::Clone>::clone, stub_sig_clone)]
#[kani::stub(<str as std::string::ToString>::to_string, stub_str_to_string)]
#[kani::unwind(2)]
fn c03_map_new__n16() {
    let buf: [u8; 16] = kani::any();
    let len: usize = kani::any();
    kani::assume(len <= 16);
    let bytes = &buf[..len];
    let (mut de, big) = any_de(bytes, &SIG_DICT_IH);
    let r = ArrayMapDeserializer::new(&mut de);
    if let Ok(md) = &r {
        obl!("C03.map_new.key_value_signatures", core::ptr::eq(md.key_signature, &SIG_I) && core::ptr::eq(md.value_signature, &SIG_H));
        obl!("C03.map_new.entry_alignment_8", md.ad.element_alignment == 8 && (md.ad.de.0.ctxt.position() + md.ad.start) % 8 == 0);
        obl!("C03.map_new.current_signature_is_key", core::ptr::eq(md.ad.de.0.signature, &SIG_I));
    }
    kani::cover!(r.is_ok(), "cover.ok");
    kani::cover!(r.is_err(), "cover.err");
    core::mem::forget(r);
}

// ---- contract: StructureDeserializer::{new, next_element_seed}  (struct (ih): field 0 plain i32, field 1 fd) ----
// ensures new: Ok <=> pad(abs,8) zero bytes present ∧ structure depth not exceeded ; pos advanced by the padding ;
//              num_fields = number of fields of the signature ; depth.structure + 1
//         next_element_seed(k): field k decoded under FIELD k's signature at its own alignment ; pos advanced ;
//              after the last field depth.structure - 1 ; Ok(None) once all fields are consumed
// @unit C03.struct_new props=C02,C03,C04,C07 kind=bounded bound=buffer<=12,struct=(ih) fn=zvariant::dbus::de::StructureDeserializer::new stubs=C03.parse_padding,C07.inc_structure timeout=1800
#[cfg(not(verif_skip_c03_struct_new__n12))]
#[cfg(kani)]
#[kani::proof]
#[kani::stub(alloc::fmt::format, stub_format)]
#[kani::stub(DeserializerCommon::parse_padding, stub_parse_padding)]
#[kani::stub(<Signature as std::clone::Clone>::clone, stub_sig_clone)]
#[kani::stub(<str as std::string::ToString>::to_string, stub_str_to_string)]
#[kani::unwind(3)]
fn c03_struct_new__n12() {
    let buf: [u8; 12] = kani::any();
    let len: usize = kani::any();
    kani::assume(len <= 12);
    let bytes = &buf[..len];
    let (mut de, big) = any_de(bytes, &SIG_STRUCT_IH);
    let d0 = any_wf_depths();
    let (s0, a0, v0) = counters(&d0);
    de.0.container_depths = d0;
    let depth_ok = spec_depth_ok(s0 as u32 + 1, a0 as u32, v0 as u32, 0);
    let pos0 = de.0.pos;
    let p = spec_pad(de.0.ctxt.position() + pos0, 8);
    let r = StructureDeserializer::new(&mut de);
    obl!("C03.struct_new.ok_iff_padding_and_depth", r.is_ok() == (spec_zero_padding(bytes, pos0, p) && depth_ok));
    if let Ok(sd) = &r {
        obl!("C03.struct_new.aligned_to_8", sd.de.0.pos == pos0 + p);
        obl!("C03.struct_new.field_count", sd.num_fields == 2 && sd.field_idx == 0);
        obl!("C03.struct_new.depth_incremented", counters(&sd.de.0.container_depths) == (s0 + 1, a0, v0));
    }
    kani::cover!(r.is_ok() && p == 7, "cover.ok_pad7");
    kani::cover!(r.is_err() && depth_ok, "cover.err_padding");
    kani::cover!(r.is_err() && !depth_ok, "cover.err_depth");
    core::mem::forget(r);
}

// @unit C03.struct_field props=C02,C03,C04,C07 kind=bounded bound=buffer<=12,struct=(ih) fn=<zvariant::dbus::de::StructureDeserializer.as.serde::de::SeqAccess>::next_element_seed stubs=C03.parse_padding timeout=1800
#[cfg(not(verif_skip_c03_struct_field__n12))]
#[cfg(kani)]
#[kani::proof]
#[kani::stub(alloc::fmt::format, stub_format)]
#[kani::stub(DeserializerCommon::parse_padding, stub_parse_padding)]
#[kani::stub(<Signature as std::clone::Clone>::clone, stub_sig_clone)]
#[kani::stub(<str as std::string::ToString>::to_string, stub_str_to_string)]
#[kani::unwind(4)]
fn c03_struct_field__n12() {
    let buf: [u8; 12] = kani::any();
    let len: usize = kani::any();
    kani::assume(len <= 12);
    let bytes = &buf[..len];
    let raw: [i32; 2] = kani::any();
    kani::assume(raw[0] >= 0 && raw[1] >= 0);
    let fds: [Fd0; 2] = unsafe { [BorrowedFd::borrow_raw(raw[0]), BorrowedFd::borrow_raw(raw[1])] };
    let fds_ref: &'static [Fd0] = unsafe { core::mem::transmute::<&[Fd0], &'static [Fd0]>(&fds[..]) };
    let (mut de, big) = any_de(bytes, &SIG_STRUCT_IH);
    de.0.fds = Some(fds_ref);
    let d0 = any_wf_depths();
    let (s0, a0, v0) = counters(&d0);
    kani::assume(s0 >= 1);
    de.0.container_depths = d0;
    let pos0 = de.0.pos;
    let position = de.0.ctxt.position();
    let field_idx: usize = kani::any();
    kani::assume(field_idx <= 2);
    let mut sd = StructureDeserializer { de: &mut de, field_idx, num_fields: 2 };
    let cell = core::cell::Cell::new(None);
    let r = sd.next_element_seed(PeekSeed::<i32>::new(&cell));
    if field_idx < 2 {
        let seen: Option<ChildState> = cell.get();
        obl!("C07.struct_field.nested_deserializer_created", seen.is_some());
        if let Some(c) = seen {
            obl!("C07.struct_field.nested_inherits_parent_depth_incl_this_structure", c.depths == (s0, a0, v0));
            obl!("C03.struct_field.nested_signature_is_field_k", core::ptr::eq(c.sig, if field_idx == 0 { &SIG_I } else { &SIG_H }));
            obl!("C03.struct_field.nested_starts_at_parent_position", c.pos == pos0 && c.position == position);
        }
    }
    let p = spec_pad(position + pos0, 4);
    let present = spec_zero_padding(bytes, pos0, p) && pos0 + p + 4 <= len;
    let word = if present { spec_u32(&bytes[pos0 + p..pos0 + p + 4], big) } else { 0 };
    if field_idx == 2 {
        obl!("C03.struct_field.none_after_last", matches!(r, Ok(None)) && sd.de.0.pos == pos0);
    } else {
        let expect_ok = present && (field_idx == 0 || (word as usize) < 2);
        obl!("C03.struct_field.ok_iff_valid_field_encoding", matches!(r, Ok(Some(_))) == expect_ok && !matches!(r, Ok(None)));
        if let Ok(Some(v)) = &r {
            obl!("C03.struct_field.decoded_under_its_own_field_signature",
                 if field_idx == 0 { *v == word as i32 } else { *v == raw[word as usize] });
            obl!("C03.struct_field.advance", sd.de.0.pos == pos0 + p + 4 && sd.field_idx == field_idx + 1);
            obl!("C03.struct_field.depth_restored_after_last_field_only",
                 counters(&sd.de.0.container_depths) == (if field_idx == 1 { s0 - 1 } else { s0 }, a0, v0));
        }
        obl!("C03.struct_field.outer_signature_unchanged", core::ptr::eq(sd.de.0.signature, &SIG_STRUCT_IH));
    }
    kani::cover!(matches!(r, Ok(Some(_))) && field_idx == 1, "cover.last_field_ok");
    kani::cover!(matches!(r, Ok(None)), "cover.none");
    kani::cover!(r.is_err(), "cover.err");
    core::mem::forget(r);
}

// ---- contract: ValueDeserializer::next_element_seed, stage Value (the payload of a variant) ------------------
// state (established by stage Signature through the de_str.g contract): sig_start < len,
//        pos = sig_start + 1 + L + 1 where L = bytes[sig_start]
// ensures no panic for ANY bytes (the signature length byte and the payload are indexed through checked slices)
//         Ok(Some(v)) ==> signature bytes in bounds ∧ payload decoded as the type the signature names, ALIGNED
//                         RELATIVE TO THE ABSOLUTE MESSAGE POSITION (not to the start of the payload slice) ;
//                         pos' = payload start + bytes consumed ; outer depth unchanged (inner uses depth+1 variant)
//         variant depth exceeded ==> Err
// Assumed contract (dependency, unchecked here): `Signature::from_bytes` maps the one-byte signatures
// "y","u","t" to U8/U32/U64 and rejects everything else of length != 1 -- the winnow parser itself does not
// finish under CBMC on symbolic input (DESIGN §3); it is exercised on concrete inputs in C03.value_sig.instances.
macro_rules! sig_stub {
    ($name:ident, $code:expr, $sig:expr) => {
        fn $name(bytes: &[u8]) -> core::result::Result<Signature, zvariant_utils::signature::Error> {
            if bytes.len() == 1 && bytes[0] == $code { return Ok($sig); }
            Err(zvariant_utils::signature::Error::InvalidSignature)
        }
    };
}
sig_stub!(stub_sig_from_bytes_y, b'y', Signature::U8);
sig_stub!(stub_sig_from_bytes_u, b'u', Signature::U32);
sig_stub!(stub_sig_from_bytes_t, b't', Signature::U64);

/// Harness seed: lets the DESERIALIZER choose the wire type from its signature (deserialize_any), and widens
/// whatever unsigned integer it yields to u64 -- this is how a dynamically typed consumer (Value) reads a variant.
struct AnyUnsigned;
impl<'de> serde::de::Visitor<'de> for AnyUnsigned {
    type Value = u64;
    fn expecting(&self, f: &mut core::fmt::Formatter<'_>) -> core::fmt::Result { f.write_str("unsigned") }
    fn visit_u8<E>(self, v: u8) -> core::result::Result<u64, E> { Ok(v as u64) }
    fn visit_u32<E>(self, v: u32) -> core::result::Result<u64, E> { Ok(v as u64) }
    fn visit_u64<E>(self, v: u64) -> core::result::Result<u64, E> { Ok(v) }
}
impl<'de> DeserializeSeed<'de> for AnyUnsigned {
    type Value = u64;
    fn deserialize<D: serde::Deserializer<'de>>(self, d: D) -> core::result::Result<u64, D::Error> { d.deserialize_any(AnyUnsigned) }
}

macro_rules! value_payload_unit {
    ($name:ident, $stub:ident, $code:expr, $size:expr, $o_ok_iff_valid_payload:literal, $o_value_at_absolute_alignment:literal, $o_consumed:literal, $o_outer_depth_unchanged:literal) => {
        #[cfg(kani)]
        #[kani::proof]
        #[kani::stub(alloc::fmt::format, stub_format)]
        #[kani::stub(DeserializerCommon::parse_padding, stub_parse_padding)]
        #[kani::stub(<Signature as std::clone::Clone>::clone, stub_sig_clone)]
        #[kani::stub(<str as std::string::ToString>::to_string, stub_str_to_string)]
        #[kani::stub(Signature::from_bytes, $stub)]
        #[kani::unwind(2)]
        fn $name() {
            let buf: [u8; 16] = kani::any();
            let len: usize = kani::any();
            kani::assume(len <= 16);
            let bytes = &buf[..len];
            let (mut de, big) = any_de(bytes, &Signature::Variant);
            let d0 = any_wf_depths();
            let (s0, a0, v0) = counters(&d0);
            de.0.container_depths = d0;
            let position = de.0.ctxt.position();
            let sig_start: usize = kani::any();
            kani::assume(sig_start < len);
            let l = bytes[sig_start] as usize;
            let value_start = sig_start + 1 + l + 1;
            de.0.pos = value_start; // what stage Signature leaves behind (de_str.g.consumed)
            kani::assume(value_start <= len); // ditto (de_str.g.terminator_present)
            let mut vd = ValueDeserializer { de: &mut de, stage: ValueParseStage::Value, sig_start };
            // the seed reads a u64 directly (what `u64::deserialize` does): this observes the inner deserializer's
            // alignment base and position accounting without pulling the whole deserialize_any dispatch into the unit
            let cell = core::cell::Cell::new(None);
            let r = vd.next_element_seed(PeekSeed::<u64>::new(&cell));
            if let Some(c) = cell.get() {
                let c: ChildState = c;
                assert!(c.depths == (s0, a0, v0 + 1), "C07.value_payload.nested_depth_counts_this_variant");
            }
            // expected: single-byte signature y/u/t, payload aligned on the ABSOLUTE position
            let code = bytes[sig_start + 1];
            let size: usize = if l == 1 && code == $code { $size } else { 0 };
            let p = if size > 0 { spec_pad(position + value_start, size) } else { 0 };
            let present = size > 0 && spec_zero_padding(bytes, value_start, p) && value_start + p + size <= len;
            let depth_ok = spec_depth_ok(s0 as u32, a0 as u32, v0 as u32 + 1, 0);
            // u64's visitor accepts u8/u32/u64 payloads
            obl!($o_ok_iff_valid_payload, matches!(r, Ok(Some(_))) == (present && depth_ok) && !matches!(r, Ok(None)));
            if let Ok(Some(v)) = &r {
                let want: u64 = match size {
                    1 => bytes[value_start + p] as u64,
                    4 => spec_u32(&bytes[value_start + p..value_start + p + 4], big) as u64,
                    _ => spec_u64(&bytes[value_start + p..value_start + p + 8], big),
                };
                obl!($o_value_at_absolute_alignment, *v == want);
                obl!($o_consumed, vd.de.0.pos == value_start + p + size);
                obl!($o_outer_depth_unchanged, counters(&vd.de.0.container_depths) == (s0, a0, v0));
            }
            kani::cover!(matches!(r, Ok(Some(_))) && (p > 0 || $size == 1), "cover.ok_padded");
            kani::cover!(r.is_err() && present, "cover.err_depth");
            kani::cover!(r.is_err() && size == 0, "cover.err_signature");
            core::mem::forget(r);
        }
    };
}
// @unit C03.value_payload.t props=C02,C03,C04,C07 kind=bounded bound=buffer<=16,payload=t fn=<zvariant::dbus::de::ValueDeserializer.as.serde::de::SeqAccess>::next_element_seed stubs=C03.parse_padding,C03.de_u64 timeout=1800
#[cfg(not(verif_skip_c03_value_payload_t__n16))]
value_payload_unit!(c03_value_payload_t__n16, stub_sig_from_bytes_t, b't', 8, "C03.value_payload.t.ok_iff_valid_payload", "C03.value_payload.t.value_at_absolute_alignment", "C03.value_payload.t.consumed", "C03.value_payload.t.outer_depth_unchanged");

// The signature carried by a variant must be exactly ONE complete type (D-Bus specification, VARIANT).
// Assumed contract of the dependency `Signature::from_bytes` (the winnow parser does not finish under CBMC even
// on concrete input: 13 GB / > 10 min measured): "" parses to the unit signature, "ii" parses to the implicit
// structure (ii) -- the documented top-level behaviour of the parser (property C06: "up to the documented outer
// parentheses of multi-type signatures"), "u" parses to U32.  The native replay runs the REAL parser.
static II_FIELDS: [&Signature; 2] = [&SIG_I, &SIG_I];
fn stub_sig_from_bytes_ii(bytes: &[u8]) -> core::result::Result<Signature, zvariant_utils::signature::Error> {
    if bytes.len() == 2 && bytes[0] == b'i' && bytes[1] == b'i' { return Ok(Signature::static_structure(&II_FIELDS)); }
    Err(zvariant_utils::signature::Error::InvalidSignature)
}
fn stub_sig_from_bytes_empty(bytes: &[u8]) -> core::result::Result<Signature, zvariant_utils::signature::Error> {
    if bytes.len() == 0 { return Ok(Signature::Unit); }
    Err(zvariant_utils::signature::Error::InvalidSignature)
}
/// Assumed contract of the dependency `Signature::string_len` for the three shapes these units meet (its loop over
/// the structure fields plus the recursive drop glue needs unwind(4), which did not finish in 15 min):
/// unit = 0, a basic type = 1, the structure (ii) = 4.  The native replay runs the real function.
fn stub_string_len(s: &Signature) -> usize {
    match s { Signature::Unit => 0, Signature::Structure(_) => 4, _ => 1 }
}
/// A consumer that does not look at the payload: whatever it does, a variant whose signature is not a single
/// complete type must be rejected by the ValueDeserializer itself.
struct IgnorePayload;
impl<'de> DeserializeSeed<'de> for IgnorePayload {
    type Value = u64;
    fn deserialize<D: serde::Deserializer<'de>>(self, _d: D) -> core::result::Result<u64, D::Error> { Ok(7) }
}
macro_rules! value_sig_unit {
    ($name:ident, $stub:ident, $unwind:expr, $head:expr, $o_rejected:literal) => {
        #[cfg(kani)]
        #[kani::proof]
        #[kani::stub(alloc::fmt::format, stub_format)]
        #[kani::stub(<Signature as std::clone::Clone>::clone, stub_sig_clone)]
        #[kani::stub(<str as std::string::ToString>::to_string, stub_str_to_string)]
        #[kani::stub(zvariant_utils::signature::Signature::from_bytes, $stub)]
        #[kani::stub(zvariant_utils::signature::Signature::string_len, stub_string_len)]
        #[kani::unwind($unwind)]
        fn $name() {
            // [sig len][sig bytes][NUL][zero padding up to 8][8 payload bytes: any]
            let head: [u8; 4] = $head;
            let payload: [u8; 8] = kani::any();
            let bytes: [u8; 16] = [head[0], head[1], head[2], head[3], 0, 0, 0, 0,
                payload[0], payload[1], payload[2], payload[3], payload[4], payload[5], payload[6], payload[7]];
            let (endian, _big) = any_endian();
            let mut de: De<'_> = Deserializer(DeserializerCommon {
                ctxt: Context::new_dbus(endian, 0), bytes: &bytes, fds: None, pos: 1 + head[0] as usize + 1,
                signature: &SIG_VARIANT, container_depths: ContainerDepths::default(),
            });
            let mut vd = ValueDeserializer { de: &mut de, stage: ValueParseStage::Value, sig_start: 0 };
            let r = vd.next_element_seed(IgnorePayload);
            obl!($o_rejected, r.is_err());
            core::mem::forget(r);
        }
    };
}
// @unit C03.value_sig.two_types props=C03 kind=instance bound=variant-signature="ii",symbolic-payload fn=<zvariant::dbus::de::ValueDeserializer.as.serde::de::SeqAccess>::next_element_seed timeout=600
#[cfg(not(verif_skip_c03_value_sig_two_types__instance))]
value_sig_unit!(c03_value_sig_two_types__instance, stub_sig_from_bytes_ii, 2, [2, b'i', b'i', 0], "C03.value_sig.two_complete_types_rejected");
// @unit C03.value_sig.empty props=C03 kind=instance bound=variant-signature="",symbolic-payload fn=<zvariant::dbus::de::ValueDeserializer.as.serde::de::SeqAccess>::next_element_seed timeout=600
#[cfg(not(verif_skip_c03_value_sig_empty__instance))]
value_sig_unit!(c03_value_sig_empty__instance, stub_sig_from_bytes_empty, 2, [0, 0, 0, 0], "C03.value_sig.empty_signature_rejected");
// (a single complete type is accepted: unit C03.value_payload.t, obligation ok_iff_valid_payload)

// Stage Signature and stage Done of the same state machine.
// @unit C03.value_stages props=C02,C03,C04 kind=bounded bound=buffer<=6 fn=<zvariant::dbus::de::ValueDeserializer.as.serde::de::SeqAccess>::next_element_seed,zvariant::dbus::de::ValueDeserializer::new stubs=C03.parse_padding timeout=1800
#[cfg(not(verif_skip_c03_value_stages__n6))]
#[cfg(kani)]
#[kani::proof]
#[kani::stub(alloc::fmt::format, stub_format)]
#[kani::stub(DeserializerCommon::parse_padding, stub_parse_padding)]
#[kani::stub(<Signature as std::clone::Clone>::clone, stub_sig_clone)]
#[kani::stub(<str as std::string::ToString>::to_string, stub_str_to_string)]
#[kani::unwind(8)]
fn c03_value_stages__n6() {
    let buf: [u8; 6] = kani::any();
    let len: usize = kani::any();
    kani::assume(len <= 6);
    let bytes = &buf[..len];
    let (mut de, _big) = any_de(bytes, &SIG_VARIANT);
    let pos0 = de.0.pos;
    let mut vd = ValueDeserializer::new(&mut de);
    obl!("C03.value_stages.sig_start_is_current_pos", vd.sig_start == pos0 && matches!(vd.stage, ValueParseStage::Signature));
    let r = vd.next_element_seed(core::marker::PhantomData::<&str>);
    obl!("C03.value_stages.signature_restored", core::ptr::eq(vd.de.0.signature, &SIG_VARIANT));
    obl!("C03.value_stages.advances_to_value_stage", matches!(vd.stage, ValueParseStage::Value));
    if let Ok(Some(sv)) = &r {
        // read as a SIGNATURE string: one length byte, content, NUL (de_str.g contract)
        obl!("C03.value_stages.signature_read_with_u8_length", pos0 < len && sv.len() == bytes[pos0] as usize
             && vd.de.0.pos == pos0 + 1 + sv.len() + 1 && vd.de.0.pos <= len);
    }
    kani::cover!(matches!(r, Ok(Some(_))), "cover.ok");
    kani::cover!(r.is_err(), "cover.err");
    core::mem::forget(r);
    vd.stage = ValueParseStage::Done;
    let r2 = vd.next_element_seed(core::marker::PhantomData::<u8>);
    obl!("C03.value_stages.done_yields_none", matches!(r2, Ok(None)));
    core::mem::forget(r2);
}
static SIG_VARIANT: Signature = Signature::Variant;

// ---- contract: deserialize_ay  (the byte-array fast path behind deserialize_bytes / deserialize_byte_buf) ----------
// requires signature `ay`, wf depths
// ensures  Ok(b) <=> 4-aligned length word present with zero padding ∧ array depth not exceeded ∧ `len` bytes present ;
//          Ok(b) ==> b = exactly those bytes (borrowed from the buffer), pos advanced past them ;
//          AFTERWARDS THE DESERIALIZER IS BACK IN ITS OUTER STATE: signature `ay` again (a sibling `ay` decodes next)
//          and the array depth it took is given back (siblings never accumulate depth)
// @unit C03.deserialize_ay props=C03,C04,C07,C02 kind=bounded bound=buffer<=12 fn=zvariant::dbus::de::deserialize_ay stubs=C03.parse_padding timeout=1800
#[cfg(not(verif_skip_c03_deserialize_ay__n12))]
#[cfg(kani)]
#[kani::proof]
#[kani::stub(alloc::fmt::format, stub_format)]
#[kani::stub(DeserializerCommon::parse_padding, stub_parse_padding)]
#[kani::stub(<Signature as std::clone::Clone>::clone, stub_sig_clone)]
#[kani::stub(<str as std::string::ToString>::to_string, stub_str_to_string)]
#[kani::unwind(3)]
fn c03_deserialize_ay__n12() {
    let buf: [u8; 12] = kani::any();
    let len: usize = kani::any();
    kani::assume(len <= 12);
    let bytes = &buf[..len];
    let (mut de, big) = any_de(bytes, &SIG_AY);
    let d0 = any_wf_depths();
    let (s0, a0, v0) = counters(&d0);
    de.0.container_depths = d0;
    let pos0 = de.0.pos;
    let p = spec_pad(de.0.ctxt.position() + pos0, 4);
    let head_ok = spec_zero_padding(bytes, pos0, p) && pos0 + p + 4 <= len;
    let l: usize = if head_ok { spec_u32(&bytes[pos0 + p..pos0 + p + 4], big) as usize } else { 0 };
    let start = pos0 + p + 4;
    let depth_ok = spec_depth_ok(s0 as u32, a0 as u32 + 1, v0 as u32, 0);
    let want_ok = head_ok && depth_ok && l <= len - start;
    let r = deserialize_ay(&mut de);
    obl!("C03.deserialize_ay.ok_iff_valid_byte_array", r.is_ok() == want_ok);
    if let Ok(b) = &r {
        obl!("C03.deserialize_ay.exact_bytes", b.len() == l && b.as_ptr() == bytes[start..].as_ptr());
        obl!("C03.deserialize_ay.consumed", de.0.pos == start + l);
        obl!("C03.deserialize_ay.signature_restored_to_ay", core::ptr::eq(de.0.signature, &SIG_AY));
        obl!("C07.deserialize_ay.array_depth_given_back", counters(&de.0.container_depths) == (s0, a0, v0));
    }
    kani::cover!(r.is_ok() && l == 3, "cover.ok_3_bytes");
    kani::cover!(r.is_err() && head_ok && depth_ok, "cover.err_short");
    kani::cover!(r.is_err() && !depth_ok, "cover.err_depth");
    core::mem::forget(r);
}

// ---- contract: deserialize_any (signature-driven dispatch: how a dynamically typed consumer such as Value reads) ----
// requires signature = one fixed-size basic type
// ensures  Ok  <=> a valid encoding of THAT type is present (padding zero, width bytes, bool in {0,1}) ;
//          the visitor receives the visit_* call of exactly that type with the spec decoding ; pos advanced by pad + width
// (a swapped arm -- `n` read as u16, `h` read as a plain i32 -- changes the tag or the value)
struct RecVisitor;
impl<'de> Visitor<'de> for RecVisitor {
    type Value = (u8, u64);
    fn expecting(&self, f: &mut core::fmt::Formatter<'_>) -> core::fmt::Result { f.write_str("any basic") }
    fn visit_bool<E>(self, v: bool) -> core::result::Result<(u8, u64), E> { Ok((b'b', v as u64)) }
    fn visit_u8<E>(self, v: u8) -> core::result::Result<(u8, u64), E> { Ok((b'y', v as u64)) }
    fn visit_i16<E>(self, v: i16) -> core::result::Result<(u8, u64), E> { Ok((b'n', v as u16 as u64)) }
    fn visit_u16<E>(self, v: u16) -> core::result::Result<(u8, u64), E> { Ok((b'q', v as u64)) }
    fn visit_i32<E>(self, v: i32) -> core::result::Result<(u8, u64), E> { Ok((b'i', v as u32 as u64)) }
    fn visit_u32<E>(self, v: u32) -> core::result::Result<(u8, u64), E> { Ok((b'u', v as u64)) }
    fn visit_i64<E>(self, v: i64) -> core::result::Result<(u8, u64), E> { Ok((b'x', v as u64)) }
    fn visit_u64<E>(self, v: u64) -> core::result::Result<(u8, u64), E> { Ok((b't', v)) }
    fn visit_f64<E>(self, v: f64) -> core::result::Result<(u8, u64), E> { Ok((b'd', v.to_bits())) }
}
macro_rules! any_unit {
    ($name:ident, $ty:ty, $code:expr, $size:expr, $o_iff:literal, $o_tag:literal, $o_val:literal, $o_adv:literal) => {
        #[cfg(kani)]
        #[kani::proof]
        #[kani::stub(alloc::fmt::format, stub_format)]
        #[kani::stub(DeserializerCommon::parse_padding, stub_parse_padding)]
        #[kani::stub(<Signature as std::clone::Clone>::clone, stub_sig_clone)]
        #[kani::stub(<str as std::string::ToString>::to_string, stub_str_to_string)]
        #[kani::unwind(3)]
        fn $name() {
            let buf: [u8; 16] = kani::any();
            let len: usize = kani::any();
            kani::assume(len <= 16);
            let bytes = &buf[..len];
            let (mut de, big) = any_de(bytes, <$ty as Type>::SIGNATURE);
            let pos0 = de.0.pos;
            let p = spec_pad(de.0.ctxt.position() + pos0, $size);
            let present = spec_zero_padding(bytes, pos0, p) && pos0 + p + $size <= len;
            let r = serde::Deserializer::deserialize_any(&mut de, RecVisitor);
            let raw: u64 = if present {
                match $size { 1 => bytes[pos0 + p] as u64, 2 => spec_u16(&bytes[pos0 + p..pos0 + p + 2], big) as u64,
                              4 => spec_u32(&bytes[pos0 + p..pos0 + p + 4], big) as u64, _ => spec_u64(&bytes[pos0 + p..pos0 + p + 8], big) }
            } else { 0 };
            let valid = present && ($code != b'b' || raw <= 1);
            obl!($o_iff, r.is_ok() == valid);
            if let Ok((tag, bits)) = &r {
                obl!($o_tag, *tag == $code);
                obl!($o_val, *bits == raw);
                obl!($o_adv, de.0.pos == pos0 + p + $size);
            }
            kani::cover!(r.is_ok() && p > 0 || $size == 1, "cover.ok_padded");
            kani::cover!(r.is_err(), "cover.err");
            core::mem::forget(r);
        }
    };
}
// @unit C03.any.y props=C03,C04 kind=bounded bound=buffer<=16 tier=thorough fn=zvariant::de::deserialize_any,<&mut.zvariant::dbus::Deserializer.as.serde::Deserializer>::deserialize_any stubs=C03.parse_padding timeout=1200
#[cfg(not(verif_skip_c03_any_y__n16))]
any_unit!(c03_any_y__n16, u8, b'y', 1, "C03.any.y.ok_iff_valid", "C03.any.y.visitor_gets_u8", "C03.any.y.value", "C03.any.y.consumed");
// @unit C03.any.b props=C03,C04 kind=bounded bound=buffer<=16 fn=zvariant::de::deserialize_any stubs=C03.parse_padding timeout=1200
#[cfg(not(verif_skip_c03_any_b__n16))]
any_unit!(c03_any_b__n16, bool, b'b', 4, "C03.any.b.ok_iff_valid", "C03.any.b.visitor_gets_bool", "C03.any.b.value", "C03.any.b.consumed");
// @unit C03.any.n props=C03,C04 kind=bounded bound=buffer<=16 fn=zvariant::de::deserialize_any stubs=C03.parse_padding timeout=1200
#[cfg(not(verif_skip_c03_any_n__n16))]
any_unit!(c03_any_n__n16, i16, b'n', 2, "C03.any.n.ok_iff_valid", "C03.any.n.visitor_gets_i16", "C03.any.n.value", "C03.any.n.consumed");
// @unit C03.any.q props=C03,C04 kind=bounded bound=buffer<=16 tier=thorough fn=zvariant::de::deserialize_any stubs=C03.parse_padding timeout=1200
#[cfg(not(verif_skip_c03_any_q__n16))]
any_unit!(c03_any_q__n16, u16, b'q', 2, "C03.any.q.ok_iff_valid", "C03.any.q.visitor_gets_u16", "C03.any.q.value", "C03.any.q.consumed");
// @unit C03.any.i props=C03,C04 kind=bounded bound=buffer<=16 fn=zvariant::de::deserialize_any stubs=C03.parse_padding timeout=1200
#[cfg(not(verif_skip_c03_any_i__n16))]
any_unit!(c03_any_i__n16, i32, b'i', 4, "C03.any.i.ok_iff_valid", "C03.any.i.visitor_gets_i32", "C03.any.i.value", "C03.any.i.consumed");
// @unit C03.any.u props=C03,C04 kind=bounded bound=buffer<=16 tier=thorough fn=zvariant::de::deserialize_any stubs=C03.parse_padding timeout=1200
#[cfg(not(verif_skip_c03_any_u__n16))]
any_unit!(c03_any_u__n16, u32, b'u', 4, "C03.any.u.ok_iff_valid", "C03.any.u.visitor_gets_u32", "C03.any.u.value", "C03.any.u.consumed");
// @unit C03.any.x props=C03,C04 kind=bounded bound=buffer<=16 tier=thorough fn=zvariant::de::deserialize_any stubs=C03.parse_padding timeout=1200
#[cfg(not(verif_skip_c03_any_x__n16))]
any_unit!(c03_any_x__n16, i64, b'x', 8, "C03.any.x.ok_iff_valid", "C03.any.x.visitor_gets_i64", "C03.any.x.value", "C03.any.x.consumed");
// @unit C03.any.t props=C03,C04 kind=bounded bound=buffer<=16 fn=zvariant::de::deserialize_any stubs=C03.parse_padding timeout=1200
#[cfg(not(verif_skip_c03_any_t__n16))]
any_unit!(c03_any_t__n16, u64, b't', 8, "C03.any.t.ok_iff_valid", "C03.any.t.visitor_gets_u64", "C03.any.t.value", "C03.any.t.consumed");
// @unit C03.any.d props=C03,C04 kind=bounded bound=buffer<=16 tier=thorough fn=zvariant::de::deserialize_any stubs=C03.parse_padding timeout=1200
#[cfg(not(verif_skip_c03_any_d__n16))]
any_unit!(c03_any_d__n16, f64, b'd', 8, "C03.any.d.ok_iff_valid", "C03.any.d.visitor_gets_f64", "C03.any.d.value", "C03.any.d.consumed");

#[cfg(all(kani, test))]
mod playback {
    use super::*;
    include!("/verif/.build/playback/zvariant__dbus__de.rs");
}
