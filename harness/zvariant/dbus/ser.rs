// Contracts for zvariant/src/dbus/ser.rs and the shared SerializerCommon of zvariant/src/ser.rs
// (child module of `zvariant::dbus::ser`: sees SeqSerializer's private fields and `end_seq`)
//
// Every unit builds the real `dbus::Serializer` over a `Cursor<&mut [u8]>` window in an ARBITRARY admissible
// state (any absolute position of the value inside the message, any number of bytes already written, either
// byte order, writer positioned anywhere in the window), calls the real method, and states the bytes the
// D-Bus marshalling rules prescribe as named obligations -- including the frame: through one symbolic index
// every byte of the window outside the prescribed range is shown unchanged.
#![allow(unused_imports, dead_code, unused_variables, unused_mut)]
use super::*;
use crate::container_depths::zbus_verif::{counters, mk_depths, wf_depths};
use crate::container_depths::ContainerDepths;
use crate::ser::FdList;
use crate::{Endian, SerializerCommon, Type};
use core::mem::ManuallyDrop;
use std::io::Cursor;
include!("/verif/harness/common.rs");
include!("/verif/spec/dbus.rs");

fn stub_sig_clone(_s: &Signature) -> Signature { Signature::Unit }
fn stub_str_to_string<T: ?Sized>(_s: &T) -> String { String::new() }

const MAX_POS: usize = usize::MAX / 4; // representation invariant: positions lie inside an addressable message

type Cur<'w> = Cursor<&'w mut [u8]>;
type Ser<'s, 'w> = ManuallyDrop<Serializer<'s, Cur<'w>>>;

static SIG_Y: Signature = Signature::U8;
static SIG_U: Signature = Signature::U32;
static SIG_T: Signature = Signature::U64;
static SIG_I: Signature = Signature::I32;
static SIG_H: Signature = Signature::Fd;
static SIG_S: Signature = Signature::Str;
static SIG_O: Signature = Signature::ObjectPath;
static SIG_G: Signature = Signature::Signature;
static SIG_AY: Signature = Signature::static_array(&SIG_Y);
static SIG_AU: Signature = Signature::static_array(&SIG_U);
static SIG_AT: Signature = Signature::static_array(&SIG_T);
static SIG_DICT_IH: Signature = Signature::static_dict(&SIG_I, &SIG_H);

/// An arbitrary admissible serializer state (the `requires` of every unit below).
#[cfg(kani)]
fn any_ser<'s, 'w>(writer: &'s mut Cur<'w>, fds: &'s mut FdList, signature: &'static Signature) -> (Ser<'s, 'w>, bool) {
    let big: bool = kani::any();
    let endian = if big { Endian::Big } else { Endian::Little };
    let position: usize = kani::any();
    kani::assume(position <= MAX_POS);
    let bytes_written: usize = kani::any();
    kani::assume(bytes_written <= MAX_POS);
    let ser = ManuallyDrop::new(Serializer(SerializerCommon {
        ctxt: Context::new_dbus(endian, position),
        writer,
        bytes_written,
        fds,
        signature,
        value_sign: None,
        container_depths: ContainerDepths::default(),
    }));
    (ser, big)
}

fn ser_state_untouched(ser: &Ser<'_, '_>, sig: &'static Signature) -> bool {
    ser.0.value_sign.is_none() && core::ptr::eq(ser.0.signature, sig) && counters(&ser.0.container_depths) == (0, 0, 0)
}

#[cfg(kani)]
fn any_wf_depths() -> ContainerDepths {
    let d = mk_depths(kani::any(), kani::any(), kani::any());
    kani::assume(wf_depths(&d));
    d
}

// ---- contract: SerializerCommon::add_padding --------------------------------------------------------------
// requires align ∈ {1,2,4,8}, window has room (writer position <= 8 in a 16-byte window; padding <= 7)
// ensures  Ok(p) with p = pad(position + bytes_written, align); exactly p zero bytes written at the writer
//          position; bytes_written' = bytes_written + p; writer advanced by p; NO OTHER BYTE CHANGED
// @unit C01.add_padding props=C01,C02 kind=complete fn=zvariant::ser::SerializerCommon::add_padding,<zvariant::ser::SerializerCommon.as.std::io::Write>::write timeout=1200
#[cfg(not(verif_skip_c01_add_padding__complete))]
#[cfg(kani)]
#[kani::proof]
#[kani::stub(alloc::fmt::format, stub_format)]
#[kani::unwind(3)]
fn c01_add_padding__complete() {
    let buf0: [u8; 16] = kani::any();
    let mut buf = buf0;
    let w0: usize = kani::any();
    kani::assume(w0 <= 8);
    let mut cur: Cur<'_> = Cursor::new(&mut buf[..]);
    cur.set_position(w0 as u64);
    let mut fds = ManuallyDrop::new(FdList::Number(0));
    let (mut ser, _big) = any_ser(&mut cur, &mut fds, &SIG_Y);
    let align: usize = kani::any();
    kani::assume(align == 1 || align == 2 || align == 4 || align == 8);
    let bw0 = ser.0.bytes_written;
    let p = spec_pad(ser.0.ctxt.position() + bw0, align);
    let r = ser.0.add_padding(align);
    obl!("C01.add_padding.ok", r.is_ok());
    if let Ok(got) = &r {
        obl!("C01.add_padding.returns_spec_padding", *got == p);
    }
    obl!("C01.add_padding.counter_advanced_by_padding", ser.0.bytes_written == bw0 + p);
    let wpos = cur.position() as usize;
    obl!("C01.add_padding.writer_advanced_by_padding", wpos == w0 + p);
    let i: usize = kani::any();
    kani::assume(i < 16);
    if i >= w0 && i < w0 + p {
        obl!("C01.add_padding.padding_bytes_are_zero", buf[i] == 0);
    } else {
        obl!("C01.add_padding.frame_no_other_byte_written", buf[i] == buf0[i]);
    }
    kani::cover!(p == 7, "cover.pad7");
    kani::cover!(p == 0, "cover.pad0");
    core::mem::forget(r);
}

// ---- contract: NullWriteSeek / counter arithmetic ("size reported without writing = bytes written") --------
// The size pass and the real pass run the same SerializerCommon; the only writer-dependent step is
// `SerializerCommon::write`, which adds what the writer reports.  Cursor over a large-enough window and
// NullWriteSeek both report buf.len(), so the counters agree.  (NullWriteSeek is private to zvariant::ser;
// its contract unit is NOT built -- the "size without writing" clause rests on reading its three-line body.)

// ---- contract: fixed-size basic encoders (real serde::Serializer methods of &mut dbus::Serializer) ---------
// requires admissible state, window has room
// ensures  Ok(()); bytes at the writer position = pad(abs, A) zero bytes ++ the A-byte encoding of v in the
//          context's byte order (A from the spec's marshalling table); counter and writer advanced by pad + A;
//          no other byte changed
macro_rules! ser_fixed_unit {
    ($name:ident, $ty:ty, $code:expr, $sig:expr, $method:ident, $to_u64:expr,
     $o_ok:literal, $o_adv:literal, $o_pad:literal, $o_val:literal, $o_frame:literal) => {
        #[cfg(kani)]
        #[kani::proof]
        #[kani::stub(alloc::fmt::format, stub_format)]
        #[kani::stub(<Signature as std::clone::Clone>::clone, stub_sig_clone)]
        #[kani::unwind(3)]
        fn $name() {
            let buf0: [u8; 24] = kani::any();
            let mut buf = buf0;
            let w0: usize = kani::any();
            kani::assume(w0 <= 8);
            let mut cur: Cur<'_> = Cursor::new(&mut buf[..]);
            cur.set_position(w0 as u64);
            let mut fds = ManuallyDrop::new(FdList::Number(0));
            let (mut ser, big) = any_ser(&mut cur, &mut fds, $sig);
            let v: $ty = kani::any();
            let size = spec_align_of($code);
            let bw0 = ser.0.bytes_written;
            let p = spec_pad(ser.0.ctxt.position() + bw0, size);
            let r = serde::Serializer::$method(&mut *ser, v);
            obl!($o_ok, r.is_ok());
            let bw1 = ser.0.bytes_written;
            // frame on the serializer state: a basic value leaves signature, pending variant signature and depths alone
            let state_ok = ser_state_untouched(&ser, $sig);
            let wpos = cur.position() as usize;
            obl!($o_adv, bw1 == bw0 + p + size && wpos == w0 + p + size);
            assert!(state_ok, "C01.ser_basic.serializer_state_frame");
            let conv: fn($ty) -> u64 = $to_u64;
            let i: usize = kani::any();
            kani::assume(i < 24);
            if i < w0 || i >= w0 + p + size {
                obl!($o_frame, buf[i] == buf0[i]);
            } else if i < w0 + p {
                obl!($o_pad, buf[i] == 0);
            } else {
                obl!($o_val, buf[i] == spec_enc_byte(conv(v), size, big, i - w0 - p));
            }
            kani::cover!(p == size - 1, "cover.max_padding");
            kani::cover!(p == 0 && big, "cover.no_padding_big_endian");
            core::mem::forget(r);
        }
    };
}
// @unit C01.ser_u8 props=C01 kind=complete fn=<&mut.zvariant::dbus::Serializer.as.serde::Serializer>::serialize_u8,zvariant::ser::SerializerCommon::prep_serialize_basic timeout=1200
#[cfg(not(verif_skip_c01_ser_u8__complete))]
ser_fixed_unit!(c01_ser_u8__complete, u8, b'y', &SIG_Y, serialize_u8, |v| v as u64,
    "C01.ser_u8.ok", "C01.ser_u8.advance", "C01.ser_u8.padding_zero", "C01.ser_u8.value_bytes", "C01.ser_u8.frame");
// @unit C01.ser_bool props=C01 kind=complete fn=<&mut.zvariant::dbus::Serializer.as.serde::Serializer>::serialize_bool timeout=1200
#[cfg(not(verif_skip_c01_ser_bool__complete))]
ser_fixed_unit!(c01_ser_bool__complete, bool, b'b', <bool as Type>::SIGNATURE, serialize_bool, |v| v as u64,
    "C01.ser_bool.ok", "C01.ser_bool.advance", "C01.ser_bool.padding_zero", "C01.ser_bool.value_bytes", "C01.ser_bool.frame");
// @unit C01.ser_i16 props=C01 kind=complete fn=<&mut.zvariant::dbus::Serializer.as.serde::Serializer>::serialize_i16 timeout=1200
#[cfg(not(verif_skip_c01_ser_i16__complete))]
ser_fixed_unit!(c01_ser_i16__complete, i16, b'n', <i16 as Type>::SIGNATURE, serialize_i16, |v| v as u16 as u64,
    "C01.ser_i16.ok", "C01.ser_i16.advance", "C01.ser_i16.padding_zero", "C01.ser_i16.value_bytes", "C01.ser_i16.frame");
// @unit C01.ser_u16 props=C01 kind=complete fn=<&mut.zvariant::dbus::Serializer.as.serde::Serializer>::serialize_u16 timeout=1200
#[cfg(not(verif_skip_c01_ser_u16__complete))]
ser_fixed_unit!(c01_ser_u16__complete, u16, b'q', <u16 as Type>::SIGNATURE, serialize_u16, |v| v as u64,
    "C01.ser_u16.ok", "C01.ser_u16.advance", "C01.ser_u16.padding_zero", "C01.ser_u16.value_bytes", "C01.ser_u16.frame");
// @unit C01.ser_i32 props=C01 kind=complete fn=<&mut.zvariant::dbus::Serializer.as.serde::Serializer>::serialize_i32 timeout=1200
#[cfg(not(verif_skip_c01_ser_i32__complete))]
ser_fixed_unit!(c01_ser_i32__complete, i32, b'i', &SIG_I, serialize_i32, |v| v as u32 as u64,
    "C01.ser_i32.ok", "C01.ser_i32.advance", "C01.ser_i32.padding_zero", "C01.ser_i32.value_bytes", "C01.ser_i32.frame");
// @unit C01.ser_u32 props=C01 kind=complete fn=<&mut.zvariant::dbus::Serializer.as.serde::Serializer>::serialize_u32 timeout=1200
#[cfg(not(verif_skip_c01_ser_u32__complete))]
ser_fixed_unit!(c01_ser_u32__complete, u32, b'u', &SIG_U, serialize_u32, |v| v as u64,
    "C01.ser_u32.ok", "C01.ser_u32.advance", "C01.ser_u32.padding_zero", "C01.ser_u32.value_bytes", "C01.ser_u32.frame");
// @unit C01.ser_i64 props=C01 kind=complete fn=<&mut.zvariant::dbus::Serializer.as.serde::Serializer>::serialize_i64 timeout=1200
#[cfg(not(verif_skip_c01_ser_i64__complete))]
ser_fixed_unit!(c01_ser_i64__complete, i64, b'x', <i64 as Type>::SIGNATURE, serialize_i64, |v| v as u64,
    "C01.ser_i64.ok", "C01.ser_i64.advance", "C01.ser_i64.padding_zero", "C01.ser_i64.value_bytes", "C01.ser_i64.frame");
// @unit C01.ser_u64 props=C01 kind=complete fn=<&mut.zvariant::dbus::Serializer.as.serde::Serializer>::serialize_u64 timeout=1200
#[cfg(not(verif_skip_c01_ser_u64__complete))]
ser_fixed_unit!(c01_ser_u64__complete, u64, b't', &SIG_T, serialize_u64, |v| v,
    "C01.ser_u64.ok", "C01.ser_u64.advance", "C01.ser_u64.padding_zero", "C01.ser_u64.value_bytes", "C01.ser_u64.frame");
// @unit C01.ser_f64 props=C01 kind=complete fn=<&mut.zvariant::dbus::Serializer.as.serde::Serializer>::serialize_f64 timeout=1200
#[cfg(not(verif_skip_c01_ser_f64__complete))]
ser_fixed_unit!(c01_ser_f64__complete, f64, b'd', <f64 as Type>::SIGNATURE, serialize_f64, |v| v.to_bits(),
    "C01.ser_f64.ok", "C01.ser_f64.advance", "C01.ser_f64.padding_zero", "C01.ser_f64.value_bytes", "C01.ser_f64.frame");

// ---- contract: serialize_i32 under signature `h` (UNIX_FD), FdList::Number mode ---------------------------
// requires fewer than u32::MAX descriptors attached so far
// ensures  the u32 written is the index of the descriptor = number attached before; number attached + 1
//          ("the number of file descriptors reported equals the number attached")
// @unit C01.ser_fd props=C01,C02 kind=complete fn=<&mut.zvariant::dbus::Serializer.as.serde::Serializer>::serialize_i32,zvariant::ser::SerializerCommon::add_fd timeout=1200
#[cfg(not(verif_skip_c01_ser_fd__complete))]
#[cfg(kani)]
#[kani::proof]
#[kani::stub(alloc::fmt::format, stub_format)]
#[kani::stub(<Signature as std::clone::Clone>::clone, stub_sig_clone)]
#[kani::unwind(3)]
fn c01_ser_fd__complete() {
    let buf0: [u8; 16] = kani::any();
    let mut buf = buf0;
    let w0: usize = kani::any();
    kani::assume(w0 <= 8);
    let mut cur: Cur<'_> = Cursor::new(&mut buf[..]);
    cur.set_position(w0 as u64);
    let n0: u32 = kani::any();
    kani::assume(n0 < u32::MAX);
    let mut fds = ManuallyDrop::new(FdList::Number(n0));
    let (mut ser, big) = any_ser(&mut cur, &mut fds, &SIG_H);
    let v: i32 = kani::any();
    let bw0 = ser.0.bytes_written;
    let p = spec_pad(ser.0.ctxt.position() + bw0, 4);
    let r = serde::Serializer::serialize_i32(&mut *ser, v);
    obl!("C01.ser_fd.ok", r.is_ok());
    obl!("C01.ser_fd.advance", ser.0.bytes_written == bw0 + p + 4);
    let n1 = match &*ser.0.fds { FdList::Number(n) => Some(*n), _ => None };
    obl!("C01.ser_fd.count_incremented", n1 == Some(n0 + 1));
    let i: usize = kani::any();
    kani::assume(i < 16);
    if i < w0 || i >= w0 + p + 4 {
        obl!("C01.ser_fd.frame", buf[i] == buf0[i]);
    } else if i < w0 + p {
        obl!("C01.ser_fd.padding_zero", buf[i] == 0);
    } else {
        obl!("C01.ser_fd.index_written_is_old_count", buf[i] == spec_enc_byte(n0 as u64, 4, big, i - w0 - p));
    }
    kani::cover!(p == 3 && n0 > 0, "cover.padded");
    core::mem::forget(r);
}

// ---- contract: serialize_str under `s`/`o` (u32 length) and `g` (u8 length) ----------------------------------
// requires v ASCII of length L <= N (bounded), window has room
// ensures  Ok(()); bytes = [s,o: pad(abs,4) zeros ++ u32 L] / [g: u8 L] ++ the L content bytes ++ 0x00;
//          counter/writer advanced by exactly that many; no other byte changed
// The signature parser is never reached when a string VALUE is encoded (only when the signature OF A VARIANT is);
// it is stubbed so that code which wrongly reaches it stays analysable (the winnow parser is out of CBMC's reach)
// and shows up in the state-frame obligation instead of as a tool crash.
fn stub_sig_from_str_any(_s: &str) -> core::result::Result<Signature, zvariant_utils::signature::Error> { Ok(Signature::Unit) }
macro_rules! ser_str_unit {
    ($name:ident, $n:expr, $sig:expr, $lenword:expr,
     $o_ok:literal, $o_adv:literal, $o_pad:literal, $o_len:literal, $o_content:literal, $o_nul:literal, $o_frame:literal) => {
        #[cfg(kani)]
        #[kani::proof]
        #[kani::stub(alloc::fmt::format, stub_format)]
        #[kani::stub(<Signature as std::str::FromStr>::from_str, stub_sig_from_str_any)]
        #[kani::stub(<Signature as std::clone::Clone>::clone, stub_sig_clone)]
        #[kani::unwind(3)]
        fn $name() {
            let buf0: [u8; 32] = kani::any();
            let mut buf = buf0;
            let w0: usize = kani::any();
            kani::assume(w0 <= 8);
            let mut cur: Cur<'_> = Cursor::new(&mut buf[..]);
            cur.set_position(w0 as u64);
            let mut fds = ManuallyDrop::new(FdList::Number(0));
            let (mut ser, big) = any_ser(&mut cur, &mut fds, $sig);
            let content: [u8; $n] = kani::any();
            let l: usize = kani::any();
            kani::assume(l <= $n);
            let j: usize = kani::any();
            kani::assume(j < $n);
            kani::assume(content[j] < 0x80); // ASCII (one symbolic index: every byte)
            let v: &str = unsafe { core::str::from_utf8_unchecked(&content[..l]) };
            let lw: usize = $lenword;
            let bw0 = ser.0.bytes_written;
            let p = if lw == 4 { spec_pad(ser.0.ctxt.position() + bw0, 4) } else { 0 };
            let r = serde::Serializer::serialize_str(&mut *ser, v);
            obl!($o_ok, r.is_ok());
            let total = p + lw + l + 1;
            let bw1 = ser.0.bytes_written;
            // frame on the serializer state: a string / object path / signature VALUE (not the signature of a variant)
            // leaves the current signature, the pending variant signature (`value_sign`) and the depths alone
            let state_ok = ser_state_untouched(&ser, $sig);
            let wpos = cur.position() as usize;
            obl!($o_adv, bw1 == bw0 + total && wpos == w0 + total);
            assert!(state_ok, "C01.ser_str.serializer_state_frame");
            let i: usize = kani::any();
            kani::assume(i < 32);
            if i < w0 || i >= w0 + total {
                obl!($o_frame, buf[i] == buf0[i]);
            } else if i < w0 + p {
                obl!($o_pad, buf[i] == 0);
            } else if i < w0 + p + lw {
                obl!($o_len, buf[i] == spec_enc_byte(l as u64, lw, big, i - w0 - p));
            } else if i < w0 + p + lw + l {
                obl!($o_content, buf[i] == content[i - w0 - p - lw]);
            } else {
                obl!($o_nul, buf[i] == 0);
            }
            kani::cover!(l == $n && (p == 3 || lw == 1), "cover.max_len_padded");
            kani::cover!(l == 0, "cover.empty");
            core::mem::forget(r);
        }
    };
}
// @unit C01.ser_str.s props=C01,C02 kind=bounded bound=ASCII,L<=4 fn=<&mut.zvariant::dbus::Serializer.as.serde::Serializer>::serialize_str timeout=1800
#[cfg(not(verif_skip_c01_ser_str_s__l4))]
ser_str_unit!(c01_ser_str_s__l4, 4, &SIG_S, 4, "C01.ser_str.s.ok", "C01.ser_str.s.advance", "C01.ser_str.s.padding_zero",
    "C01.ser_str.s.length_prefix", "C01.ser_str.s.content", "C01.ser_str.s.nul_terminator", "C01.ser_str.s.frame");
// @unit C01.ser_str.g props=C01,C02 kind=bounded bound=ASCII,L<=4 fn=<&mut.zvariant::dbus::Serializer.as.serde::Serializer>::serialize_str timeout=1800
#[cfg(not(verif_skip_c01_ser_str_g__l4))]
ser_str_unit!(c01_ser_str_g__l4, 4, &SIG_G, 1, "C01.ser_str.g.ok", "C01.ser_str.g.advance", "C01.ser_str.g.padding_zero",
    "C01.ser_str.g.length_prefix", "C01.ser_str.g.content", "C01.ser_str.g.nul_terminator", "C01.ser_str.g.frame");
// @unit C01.ser_str.o props=C01,C02 kind=bounded bound=ASCII,L<=4 tier=thorough fn=<&mut.zvariant::dbus::Serializer.as.serde::Serializer>::serialize_str timeout=1800
#[cfg(not(verif_skip_c01_ser_str_o__l4))]
ser_str_unit!(c01_ser_str_o__l4, 4, &SIG_O, 4, "C01.ser_str.o.ok", "C01.ser_str.o.advance", "C01.ser_str.o.padding_zero",
    "C01.ser_str.o.length_prefix", "C01.ser_str.o.content", "C01.ser_str.o.nul_terminator", "C01.ser_str.o.frame");
// @unit C01.ser_str.s.l12 props=C01,C02 kind=bounded bound=ASCII,L<=12 tier=thorough fn=<&mut.zvariant::dbus::Serializer.as.serde::Serializer>::serialize_str timeout=3600
#[cfg(not(verif_skip_c01_ser_str_s__l12))]
ser_str_unit!(c01_ser_str_s__l12, 12, &SIG_S, 4, "C01.ser_str.s.l12.ok", "C01.ser_str.s.l12.advance", "C01.ser_str.s.l12.padding_zero",
    "C01.ser_str.s.l12.length_prefix", "C01.ser_str.s.l12.content", "C01.ser_str.s.l12.nul_terminator", "C01.ser_str.s.l12.frame");

// ---- contract: serialize_seq (array / dict header) -------------------------------------------------------------
// requires signature = a<child> (child alignment A) or a{kv} (entry alignment 8), window has room, depth state wf
// ensures  Ok(seq) <=> array depth + 1 within the limits
//          Ok(seq) ==> bytes = pad(abs,4) zeros ++ u32 0 (length slot) ++ pad(abs',A) zeros  (FIRST-ELEMENT PADDING
//                      EVEN THOUGH NO ELEMENT FOLLOWS YET); seq.first_padding = that second padding;
//                      seq.start = bytes_written' ; signature switched to child / key; array depth + 1;
//                      no other byte changed
macro_rules! ser_seq_unit {
    ($name:ident, $sig:expr, $child:expr, $align:expr,
     $o_iff:literal, $o_bytes:literal, $o_state:literal, $o_sig:literal, $o_depth:literal, $o_frame:literal) => {
        #[cfg(kani)]
        #[kani::proof]
        #[kani::stub(alloc::fmt::format, stub_format)]
        #[kani::stub(<Signature as std::clone::Clone>::clone, stub_sig_clone)]
        #[kani::stub(<str as std::string::ToString>::to_string, stub_str_to_string)]
        #[kani::unwind(3)]
        fn $name() {
            let buf0: [u8; 32] = kani::any();
            let mut buf = buf0;
            let w0: usize = kani::any();
            kani::assume(w0 <= 8);
            let mut cur: Cur<'_> = Cursor::new(&mut buf[..]);
            cur.set_position(w0 as u64);
            let mut fds = ManuallyDrop::new(FdList::Number(0));
            let (mut ser, big) = any_ser(&mut cur, &mut fds, $sig);
            let d0 = any_wf_depths();
            let (s0, a0, v0) = counters(&d0);
            ser.0.container_depths = d0;
            let depth_ok = spec_depth_ok(s0 as u32, a0 as u32 + 1, v0 as u32, 0);
            let bw0 = ser.0.bytes_written;
            let position = ser.0.ctxt.position();
            let p1 = spec_pad(position + bw0, 4);
            let p2 = spec_pad(position + bw0 + p1 + 4, $align);
            let total = p1 + 4 + p2;
            let r = serde::Serializer::serialize_seq(&mut *ser, None);
            obl!($o_iff, r.is_ok() == depth_ok);
            if let Ok(seq) = &r {
                obl!($o_state, seq.first_padding == p2 && seq.start == bw0 + total && seq.ser.0.bytes_written == bw0 + total);
                obl!($o_sig, core::ptr::eq(seq.ser.0.signature, $child) && core::ptr::eq(seq.array_signature, $sig));
                obl!($o_depth, counters(&seq.ser.0.container_depths) == (s0, a0 + 1, v0));
            }
            let ok = r.is_ok();
            core::mem::forget(r);
            if ok {
                let i: usize = kani::any();
                kani::assume(i < 32);
                if i < w0 || i >= w0 + total {
                    obl!($o_frame, buf[i] == buf0[i]);
                } else {
                    obl!($o_bytes, buf[i] == 0);
                }
            }
            kani::cover!(ok && p2 > 0 || $align == 4, "cover.ok_first_padding");
            kani::cover!(!ok, "cover.err_depth");
        }
    };
}
// @unit C01.ser_seq.at props=C02,C01,C07 kind=complete fn=<&mut.zvariant::dbus::Serializer.as.serde::Serializer>::serialize_seq timeout=1800
#[cfg(not(verif_skip_c01_ser_seq_at__complete))]
ser_seq_unit!(c01_ser_seq_at__complete, &SIG_AT, &SIG_T, 8, "C01.ser_seq.at.ok_iff_depth_within_limits", "C01.ser_seq.at.header_bytes_zero",
    "C01.ser_seq.at.start_and_first_padding", "C01.ser_seq.at.signature_switch", "C01.ser_seq.at.depth_incremented", "C01.ser_seq.at.frame");
// @unit C01.ser_seq.au props=C02,C01,C07 kind=complete fn=<&mut.zvariant::dbus::Serializer.as.serde::Serializer>::serialize_seq timeout=1800
#[cfg(not(verif_skip_c01_ser_seq_au__complete))]
ser_seq_unit!(c01_ser_seq_au__complete, &SIG_AU, &SIG_U, 4, "C01.ser_seq.au.ok_iff_depth_within_limits", "C01.ser_seq.au.header_bytes_zero",
    "C01.ser_seq.au.start_and_first_padding", "C01.ser_seq.au.signature_switch", "C01.ser_seq.au.depth_incremented", "C01.ser_seq.au.frame");
// @unit C01.ser_seq.dict props=C02,C01,C07 kind=complete fn=<&mut.zvariant::dbus::Serializer.as.serde::Serializer>::serialize_seq timeout=1800
#[cfg(not(verif_skip_c01_ser_seq_dict__complete))]
ser_seq_unit!(c01_ser_seq_dict__complete, &SIG_DICT_IH, &SIG_I, 8, "C01.ser_seq.dict.ok_iff_depth_within_limits", "C01.ser_seq.dict.header_bytes_zero",
    "C01.ser_seq.dict.start_and_first_padding", "C01.ser_seq.dict.signature_switch", "C01.ser_seq.dict.depth_incremented", "C01.ser_seq.dict.frame");

// ---- contract: SeqSerializer::end_seq (array length back-patching) from ANY admissible array state ------------------
// state: what serialize_seq establishes and element serialisation preserves:
//        first_padding <= 7, 4 + first_padding <= start - bw_at_header... expressed on the window:
//        the writer is positioned at `wpos`, the array body is the `alen = bytes_written - start` bytes before it,
//        preceded by first_padding bytes and the 4-byte length slot, all inside the window; alen <= u32::MAX
// ensures  Ok(()); length slot := alen (EXCLUDING first_padding) in the context's byte order, at
//          wpos - alen - first_padding - 4; every other byte unchanged; writer position restored;
//          array depth - 1; signature restored to the array's
// @unit C01.end_seq props=C02,C01,C07 kind=complete fn=zvariant::dbus::ser::SeqSerializer::end_seq timeout=1800
#[cfg(not(verif_skip_c01_end_seq__complete))]
#[cfg(kani)]
#[kani::proof]
#[kani::stub(alloc::fmt::format, stub_format)]
#[kani::stub(<Signature as std::clone::Clone>::clone, stub_sig_clone)]
#[kani::unwind(3)]
fn c01_end_seq__complete() {
    let buf0: [u8; 32] = kani::any();
    let mut buf = buf0;
    let wpos0: usize = kani::any();
    let alen: usize = kani::any();
    let fp: usize = kani::any();
    kani::assume(fp <= 7);
    kani::assume(wpos0 <= 32 && alen <= 32 && alen + fp + 4 <= wpos0);
    let mut cur: Cur<'_> = Cursor::new(&mut buf[..]);
    cur.set_position(wpos0 as u64);
    let mut fds = ManuallyDrop::new(FdList::Number(0));
    let (mut ser, big) = any_ser(&mut cur, &mut fds, &SIG_T);
    kani::assume(ser.0.bytes_written >= alen + fp + 4);
    let d0 = any_wf_depths();
    let (s0, a0, v0) = counters(&d0);
    kani::assume(a0 >= 1);
    ser.0.container_depths = d0;
    let bw0 = ser.0.bytes_written;
    let start = bw0 - alen;
    let seq = SeqSerializer { ser: &mut *ser, start, first_padding: fp, array_signature: &SIG_AT };
    let r = seq.end_seq();
    obl!("C01.end_seq.ok", r.is_ok());
    core::mem::forget(r);
    obl!("C01.end_seq.counter_unchanged", ser.0.bytes_written == bw0);
    obl!("C01.end_seq.depth_and_signature_restored",
         counters(&ser.0.container_depths) == (s0, a0 - 1, v0) && core::ptr::eq(ser.0.signature, &SIG_AT));
    let wpos = cur.position() as usize;
    obl!("C01.end_seq.writer_position_restored", wpos == wpos0);
    let slot = wpos0 - alen - fp - 4;
    let i: usize = kani::any();
    kani::assume(i < 32);
    if i >= slot && i < slot + 4 {
        obl!("C01.end_seq.length_excludes_first_padding", buf[i] == spec_enc_byte(alen as u64, 4, big, i - slot));
    } else {
        obl!("C01.end_seq.frame_only_length_slot_written", buf[i] == buf0[i]);
    }
    kani::cover!(alen == 16 && fp == 4, "cover.len16_pad4");
    kani::cover!(alen == 0 && fp == 0, "cover.empty");
}


// ---- contract: StructSerializer::{variant, structure, unit, end_struct}  (depth bookkeeping of struct / variant) ----
// requires wf(depths)
// ensures  variant():   Ok <=> variant depth + 1 within the limits ; Ok ==> serializer depth = d0 with variant + 1,
//                       the depth SAVED for end_struct is the ORIGINAL d0 ; field index 0
//          structure(): same with the structure counter
//          end_struct() after either: serializer depth == d0   (siblings never see a leaked counter)
static SIG_V: Signature = Signature::Variant;
static SIG_STRUCT_YT: Signature = Signature::static_structure(&[&SIG_Y, &SIG_T]);

macro_rules! struct_open_unit {
    ($name:ident, $ctor:ident, $sig:expr, $ds:expr, $dv:expr,
     $o_iff:literal, $o_depth:literal, $o_saved:literal, $o_restored:literal, $o_nowrite:literal) => {
        #[cfg(kani)]
        #[kani::proof]
        #[kani::stub(alloc::fmt::format, stub_format)]
        #[kani::stub(<Signature as std::clone::Clone>::clone, stub_sig_clone)]
        #[kani::unwind(3)]
        fn $name() {
            let buf0: [u8; 16] = kani::any();
            let mut buf = buf0;
            let w0: usize = kani::any();
            kani::assume(w0 <= 8);
            let mut cur: Cur<'_> = Cursor::new(&mut buf[..]);
            cur.set_position(w0 as u64);
            let mut fds = ManuallyDrop::new(FdList::Number(0));
            let (mut ser, _big) = any_ser(&mut cur, &mut fds, $sig);
            let d0 = any_wf_depths();
            let (s0, a0, v0) = counters(&d0);
            ser.0.container_depths = d0;
            let bw0 = ser.0.bytes_written;
            let expect_ok = spec_depth_ok(s0 as u32 + $ds, a0 as u32, v0 as u32 + $dv, 0);
            let r = StructSerializer::$ctor(&mut *ser);
            obl!($o_iff, r.is_ok() == expect_ok);
            match r {
                Ok(st) => {
                    obl!($o_depth, counters(&st.ser.0.container_depths) == (s0 + $ds as u8, a0, v0 + $dv as u8) && st.field_idx == 0);
                    obl!($o_saved, counters(&st.container_depths) == (s0, a0, v0));
                    let e = st.end_struct();
                    obl!($o_restored, e.is_ok() && counters(&ser.0.container_depths) == (s0, a0, v0));
                    core::mem::forget(e);
                }
                Err(e) => { core::mem::forget(e); }
            }
            obl!($o_nowrite, ser.0.bytes_written == bw0);
            kani::cover!(expect_ok, "cover.ok");
            kani::cover!(!expect_ok, "cover.depth_exceeded");
        }
    };
}
// @unit C07.struct_ser.variant props=C02,C07,C01 kind=complete fn=zvariant::dbus::ser::StructSerializer::variant,zvariant::dbus::ser::StructSerializer::end_struct timeout=1200
#[cfg(not(verif_skip_c07_struct_ser_variant__complete))]
struct_open_unit!(c07_struct_ser_variant__complete, variant, &SIG_V, 0, 1,
    "C07.struct_ser.variant.ok_iff_within_limits", "C07.struct_ser.variant.depth_incremented", "C07.struct_ser.variant.saved_depth_is_original",
    "C07.struct_ser.variant.end_struct_restores_original_depth", "C07.struct_ser.variant.writes_nothing");
// @unit C07.struct_ser.structure props=C02,C07,C01 kind=complete fn=zvariant::dbus::ser::StructSerializer::structure,zvariant::dbus::ser::StructSerializer::end_struct timeout=1200
#[cfg(not(verif_skip_c07_struct_ser_structure__complete))]
struct_open_unit!(c07_struct_ser_structure__complete, structure, &SIG_STRUCT_YT, 1, 0,
    "C07.struct_ser.structure.ok_iff_within_limits", "C07.struct_ser.structure.depth_incremented", "C07.struct_ser.structure.saved_depth_is_original",
    "C07.struct_ser.structure.end_struct_restores_original_depth", "C07.struct_ser.structure.writes_nothing");

// ---- contract: StructSerializer::serialize_struct_element (field k of a structure) ----------------------------
// The field value is a probe (`PeekSer`) whose Serialize impl records the state of the nested serializer it is
// handed (in these harnesses S is always `&mut dbus::Serializer<Cursor<&mut [u8]>>`, read through a pointer cast)
// and then serializes one byte through it.
// ensures  the nested serializer carries FIELD k's signature (k = field index before the call), the parent's
//          context, byte counter and CONTAINER DEPTHS (so nested containers count from the parent's depth);
//          afterwards parent.bytes_written = child's final count ; field index + 1 ; parent depth/signature unchanged
struct PeekSer<'p> {
    out: &'p core::cell::Cell<Option<((u8, u8, u8), usize, *const Signature, usize)>>,
}
impl<'p> Serialize for PeekSer<'p> {
    fn serialize<S: serde::Serializer>(&self, s: S) -> core::result::Result<S::Ok, S::Error> {
        assert!(core::mem::size_of::<S>() == core::mem::size_of::<&mut Serializer<'static, Cur<'static>>>());
        {
            let child: &Serializer<'_, Cur<'_>> = unsafe { &**(&s as *const S as *const &mut Serializer<'_, Cur<'_>>) };
            self.out.set(Some((counters(&child.0.container_depths), child.0.bytes_written,
                               child.0.signature as *const Signature, child.0.ctxt.position())));
        }
        s.serialize_u8(0xA5)
    }
}

// @unit C01.struct_element props=C02,C01,C07 kind=instance bound=struct=(yt),probe-field fn=zvariant::dbus::ser::StructSerializer::serialize_struct_element timeout=1800
#[cfg(not(verif_skip_c01_struct_element__yt))]
#[cfg(kani)]
#[kani::proof]
#[kani::stub(alloc::fmt::format, stub_format)]
#[kani::stub(<Signature as std::clone::Clone>::clone, stub_sig_clone)]
#[kani::stub(<str as std::string::ToString>::to_string, stub_str_to_string)]
#[kani::unwind(4)]
fn c01_struct_element__yt() {
    let buf0: [u8; 16] = kani::any();
    let mut buf = buf0;
    let w0: usize = kani::any();
    kani::assume(w0 <= 4);
    let mut cur: Cur<'_> = Cursor::new(&mut buf[..]);
    cur.set_position(w0 as u64);
    let mut fds = ManuallyDrop::new(FdList::Number(0));
    let (mut ser, _big) = any_ser(&mut cur, &mut fds, &SIG_STRUCT_YT);
    let d0 = any_wf_depths();
    let (s0, a0, v0) = counters(&d0);
    ser.0.container_depths = d0;
    let bw0 = ser.0.bytes_written;
    let position = ser.0.ctxt.position();
    let saved = any_wf_depths();
    let field_idx: usize = kani::any();
    kani::assume(field_idx <= 2);
    let cell = core::cell::Cell::new(None);
    let mut st = ManuallyDrop::new(StructSerializer { ser: &mut *ser, container_depths: saved, field_idx });
    let r = st.serialize_struct_element(&PeekSer { out: &cell });
    let bw1 = st.ser.0.bytes_written;
    let fi1 = st.field_idx;
    let depths1 = counters(&st.ser.0.container_depths);
    let sig_same = core::ptr::eq(st.ser.0.signature, &SIG_STRUCT_YT);
    let is_ok = r.is_ok();
    core::mem::forget(r);
    if field_idx >= 2 {
        obl!("C01.struct_element.too_many_fields_rejected", !is_ok);
    } else {
        // field 0 is `y`; field 1 is `t` (the probe's byte is then written after padding to 8: no claim on those bytes here)
        let seen = cell.get();
        obl!("C01.struct_element.nested_serializer_created", seen.is_some());
        if let Some((depths, bw, sig, pos)) = seen {
            obl!("C01.struct_element.nested_signature_is_field_k", core::ptr::eq(sig, if field_idx == 0 { &SIG_Y } else { &SIG_T }));
            obl!("C07.struct_element.nested_inherits_parent_depth", depths == (s0, a0, v0));
            obl!("C01.struct_element.nested_inherits_counter_and_position", bw == bw0 && pos == position);
        }
        if field_idx == 0 {
            obl!("C01.struct_element.ok", is_ok);
            obl!("C01.struct_element.counter_handed_back", bw1 == bw0 + 1);
            obl!("C01.struct_element.field_bytes_written_through_nested", buf[w0] == 0xA5);
        }
        obl!("C01.struct_element.field_index_advanced", fi1 == field_idx + 1);
    }
    obl!("C07.struct_element.parent_depth_unchanged", depths1 == (s0, a0, v0));
    obl!("C01.struct_element.parent_signature_unchanged", sig_same);
    kani::cover!(is_ok, "cover.ok");
    kani::cover!(is_ok && field_idx == 1, "cover.second_field");
}

// ---- contract: serialize_struct / serialize_tuple entry (struct header: 8-byte alignment padding, dispatch by signature) ----
// requires signature (yt), wf depths, window has room
// ensures  Ok <=> structure depth + 1 within the limits ; Ok ==> exactly pad(abs, 8) zero bytes written (STRUCT alignment),
//          the struct variant of the serializer is returned with field index 0, the original depths saved, and the
//          serializer's structure depth + 1 ; no other byte changed
// @unit C01.serialize_struct.yt props=C01,C02,C07 kind=complete fn=<&mut.zvariant::dbus::Serializer.as.serde::Serializer>::serialize_struct,zvariant::dbus::ser::StructSerializer::structure timeout=1800
#[cfg(not(verif_skip_c01_serialize_struct_yt__complete))]
#[cfg(kani)]
#[kani::proof]
#[kani::stub(alloc::fmt::format, stub_format)]
#[kani::stub(<Signature as std::clone::Clone>::clone, stub_sig_clone)]
#[kani::stub(<str as std::string::ToString>::to_string, stub_str_to_string)]
#[kani::unwind(3)]
fn c01_serialize_struct_yt__complete() {
    let buf0: [u8; 24] = kani::any();
    let mut buf = buf0;
    let w0: usize = kani::any();
    kani::assume(w0 <= 8);
    let (p, bw0, bw1, ok, expect_ok, shape_ok, wpos) = {
        let mut cur: Cur<'_> = Cursor::new(&mut buf[..]);
        cur.set_position(w0 as u64);
        let mut fds = ManuallyDrop::new(FdList::Number(0));
        let (mut ser, _big) = any_ser(&mut cur, &mut fds, &SIG_STRUCT_YT);
        let d0 = any_wf_depths();
        let (s0, a0, v0) = counters(&d0);
        ser.0.container_depths = d0;
        let bw0 = ser.0.bytes_written;
        let p = spec_pad(ser.0.ctxt.position() + bw0, 8);
        let expect_ok = spec_depth_ok(s0 as u32 + 1, a0 as u32, v0 as u32, 0);
        let r = serde::Serializer::serialize_struct(&mut *ser, "", 2);
        let ok = r.is_ok();
        let shape_ok = match &r {
            Ok(StructSeqSerializer::Struct(st)) => st.field_idx == 0 && counters(&st.container_depths) == (s0, a0, v0)
                && counters(&st.ser.0.container_depths) == (s0 + 1, a0, v0) && core::ptr::eq(st.ser.0.signature, &SIG_STRUCT_YT),
            Ok(_) => false,
            Err(_) => true,
        };
        let bw1 = match &r { Ok(StructSeqSerializer::Struct(st)) => st.ser.0.bytes_written, _ => bw0 + p };
        core::mem::forget(r);
        (p, bw0, bw1, ok, expect_ok, shape_ok, cur.position() as usize)
    };
    obl!("C01.serialize_struct.yt.ok_iff_depth_within_limits", ok == expect_ok);
    obl!("C01.serialize_struct.yt.struct_serializer_state", shape_ok);
    obl!("C01.serialize_struct.yt.only_the_alignment_padding_written", bw1 == bw0 + p && wpos == w0 + p);
    let i: usize = kani::any();
    kani::assume(i < 24);
    if i >= w0 && i < w0 + p {
        obl!("C01.serialize_struct.yt.padding_to_8_is_zero", buf[i] == 0);
    } else {
        obl!("C01.serialize_struct.yt.frame", buf[i] == buf0[i]);
    }
    kani::cover!(ok && p == 7, "cover.pad7");
    kani::cover!(!ok, "cover.depth_exceeded");
}

// ---- contract: MapSerializer::{serialize_key, serialize_value}  (dict a{ih}: key `i` plain word, value `h` fd index) ----
// state: inside a dict (after serialize_seq): current signature = key signature
// ensures serialize_key:   pad(abs, 8) zero bytes (DICT_ENTRY alignment) ++ the key encoded UNDER THE KEY SIGNATURE
//                          (i32 under `i` is the plain word: the fd list is not touched); signature still the key's
//         serialize_value: the value encoded UNDER THE VALUE SIGNATURE (i32 under `h` = index of a new fd: the number
//                          attached grows by one and the index is written); afterwards signature = key signature again
// The probe value records the nested serializer state it is handed (see PeekSer above).
// @unit C01.map_key props=C01,C02 kind=complete fn=<zvariant::dbus::ser::MapSerializer.as.serde::ser::SerializeMap>::serialize_key timeout=1800
#[cfg(not(verif_skip_c01_map_key__complete))]
#[cfg(kani)]
#[kani::proof]
#[kani::stub(alloc::fmt::format, stub_format)]
#[kani::stub(<Signature as std::clone::Clone>::clone, stub_sig_clone)]
#[kani::stub(<str as std::string::ToString>::to_string, stub_str_to_string)]
#[kani::unwind(3)]
fn c01_map_key__complete() {
    let buf0: [u8; 24] = kani::any();
    let mut buf = buf0;
    let w0: usize = kani::any();
    kani::assume(w0 <= 8);
    let n0: u32 = kani::any();
    kani::assume(n0 < u32::MAX);
    let v: i32 = kani::any();
    let (bw0, bw1, p, big, n1, sig_is_key, ok, wpos) = {
        let mut cur: Cur<'_> = Cursor::new(&mut buf[..]);
        cur.set_position(w0 as u64);
        let mut fds = ManuallyDrop::new(FdList::Number(n0));
        let (mut ser, big) = any_ser(&mut cur, &mut fds, &SIG_I);
        let bw0 = ser.0.bytes_written;
        let p = spec_pad(ser.0.ctxt.position() + bw0, 8);
        kani::assume(bw0 >= 8);
        let mut map = ManuallyDrop::new(MapSerializer {
            seq: SeqSerializer { ser: &mut *ser, start: bw0, first_padding: 0, array_signature: &SIG_DICT_IH },
            key_signature: &SIG_I,
            value_signature: &SIG_H,
        });
        let r = serde::ser::SerializeMap::serialize_key(&mut *map, &v);
        let ok = r.is_ok();
        core::mem::forget(r);
        let bw1 = map.seq.ser.0.bytes_written;
        let sig_is_key = core::ptr::eq(map.seq.ser.0.signature, &SIG_I);
        let n1 = match &*map.seq.ser.0.fds { FdList::Number(n) => Some(*n), _ => None };
        (bw0, bw1, p, big, n1, sig_is_key, ok, cur.position() as usize)
    };
    obl!("C01.map_key.ok", ok);
    obl!("C01.map_key.entry_padded_to_8_then_4_byte_key", bw1 == bw0 + p + 4 && wpos == w0 + p + 4);
    obl!("C01.map_key.signature_still_key", sig_is_key);
    obl!("C01.map_key.key_is_not_treated_as_fd", n1 == Some(n0));
    let i: usize = kani::any();
    kani::assume(i < 24);
    if i < w0 || i >= w0 + p + 4 {
        obl!("C01.map_key.frame", buf[i] == buf0[i]);
    } else if i < w0 + p {
        obl!("C01.map_key.entry_padding_zero", buf[i] == 0);
    } else {
        obl!("C01.map_key.key_bytes_plain_word", buf[i] == spec_enc_byte(v as u32 as u64, 4, big, i - w0 - p));
    }
    kani::cover!(p == 7, "cover.pad7");
    kani::cover!(p == 0, "cover.pad0");
}

// @unit C01.map_value props=C01,C02 kind=complete fn=<zvariant::dbus::ser::MapSerializer.as.serde::ser::SerializeMap>::serialize_value timeout=1800
#[cfg(not(verif_skip_c01_map_value__complete))]
#[cfg(kani)]
#[kani::proof]
#[kani::stub(alloc::fmt::format, stub_format)]
#[kani::stub(<Signature as std::clone::Clone>::clone, stub_sig_clone)]
#[kani::stub(<str as std::string::ToString>::to_string, stub_str_to_string)]
#[kani::unwind(3)]
fn c01_map_value__complete() {
    let buf0: [u8; 24] = kani::any();
    let mut buf = buf0;
    let w0: usize = kani::any();
    kani::assume(w0 <= 8);
    let n0: u32 = kani::any();
    kani::assume(n0 < u32::MAX);
    let v: i32 = kani::any();
    let (bw0, bw1, p, big, n1, sig_is_key, ok, wpos) = {
        let mut cur: Cur<'_> = Cursor::new(&mut buf[..]);
        cur.set_position(w0 as u64);
        let mut fds = ManuallyDrop::new(FdList::Number(n0));
        let (mut ser, big) = any_ser(&mut cur, &mut fds, &SIG_I);
        let bw0 = ser.0.bytes_written;
        let p = spec_pad(ser.0.ctxt.position() + bw0, 4);
        kani::assume(bw0 >= 8);
        let mut map = ManuallyDrop::new(MapSerializer {
            seq: SeqSerializer { ser: &mut *ser, start: bw0, first_padding: 0, array_signature: &SIG_DICT_IH },
            key_signature: &SIG_I,
            value_signature: &SIG_H,
        });
        let r = serde::ser::SerializeMap::serialize_value(&mut *map, &v);
        let ok = r.is_ok();
        core::mem::forget(r);
        let bw1 = map.seq.ser.0.bytes_written;
        let sig_is_key = core::ptr::eq(map.seq.ser.0.signature, &SIG_I);
        let n1 = match &*map.seq.ser.0.fds { FdList::Number(n) => Some(*n), _ => None };
        (bw0, bw1, p, big, n1, sig_is_key, ok, cur.position() as usize)
    };
    obl!("C01.map_value.ok", ok);
    obl!("C01.map_value.value_aligned_to_its_own_type_not_to_8", bw1 == bw0 + p + 4 && wpos == w0 + p + 4);
    obl!("C01.map_value.signature_restored_to_key", sig_is_key);
    obl!("C01.map_value.encoded_under_value_signature_fd_attached", n1 == Some(n0 + 1));
    let i: usize = kani::any();
    kani::assume(i < 24);
    if i < w0 || i >= w0 + p + 4 {
        obl!("C01.map_value.frame", buf[i] == buf0[i]);
    } else if i < w0 + p {
        obl!("C01.map_value.padding_zero", buf[i] == 0);
    } else {
        obl!("C01.map_value.fd_index_written", buf[i] == spec_enc_byte(n0 as u64, 4, big, i - w0 - p));
    }
    kani::cover!(p == 3, "cover.pad3");
}

// ---- contract: serialized_size ("the size reported without writing equals the number of bytes written") -----------
// The public entry point is run for real on fixed-size basic values (size pass through NullWriteSeek + the same
// serializer): ensures Ok(size) with size = pad(position, A) + A -- exactly what the C01.ser_* units prove is WRITTEN
// for the same value at the same position -- and no file descriptors reported.
macro_rules! size_unit {
    ($name:ident, $ty:ty, $code:expr, $o_ok:literal, $o_size:literal) => {
        #[cfg(kani)]
        #[kani::proof]
        #[kani::stub(alloc::fmt::format, stub_format)]
        #[kani::unwind(3)]
        fn $name() {
            let big: bool = kani::any();
            let position: usize = kani::any();
            kani::assume(position <= MAX_POS);
            let v: $ty = kani::any();
            let ctxt = Context::new_dbus(if big { Endian::Big } else { Endian::Little }, position);
            let r = crate::serialized_size(ctxt, &v);
            let a = spec_align_of($code);
            match &r {
                Ok(size) => {
                    obl!($o_ok, true);
                    obl!($o_size, **size == spec_pad(position, a) + a && size.num_fds() == 0);
                }
                Err(_) => { obl!($o_ok, false); }
            }
            kani::cover!(spec_pad(position, a) == a - 1, "cover.max_padding");
            core::mem::forget(r);
        }
    };
}
// @unit C01.serialized_size.u32 props=C01 kind=complete fn=zvariant::ser::serialized_size,<zvariant::ser::NullWriteSeek.as.std::io::Write>::write timeout=1800
#[cfg(not(verif_skip_c01_serialized_size_u32__complete))]
size_unit!(c01_serialized_size_u32__complete, u32, b'u', "C01.serialized_size.u32.ok", "C01.serialized_size.u32.equals_bytes_written_incl_padding");
// @unit C01.serialized_size.u64 props=C01 kind=complete tier=thorough fn=zvariant::ser::serialized_size timeout=1800
#[cfg(not(verif_skip_c01_serialized_size_u64__complete))]
size_unit!(c01_serialized_size_u64__complete, u64, b't', "C01.serialized_size.u64.ok", "C01.serialized_size.u64.equals_bytes_written_incl_padding");
// @unit C01.serialized_size.bool props=C01 kind=complete fn=zvariant::ser::serialized_size timeout=1800
#[cfg(not(verif_skip_c01_serialized_size_bool__complete))]
size_unit!(c01_serialized_size_bool__complete, bool, b'b', "C01.serialized_size.bool.ok", "C01.serialized_size.bool.equals_bytes_written_incl_padding");
// @unit C01.serialized_size.u8 props=C01 kind=complete tier=thorough fn=zvariant::ser::serialized_size timeout=1800
#[cfg(not(verif_skip_c01_serialized_size_u8__complete))]
size_unit!(c01_serialized_size_u8__complete, u8, b'y', "C01.serialized_size.u8.ok", "C01.serialized_size.u8.equals_bytes_written_incl_padding");

// =================================================================================================================
// C02: encode -> decode returns the original value, and the decoder consumes exactly the bytes written.
// Composed units: the REAL per-type serializer method writes into a window at an arbitrary message position and
// byte order; the REAL dbus::Deserializer then reads the SAME bytes (buffer cut exactly at the end of what was
// written, same absolute position, same byte order).   ensures  decoded == v (bit-equal), consumed == written.
// The decoder's padding callee is replaced by its exact loop-free contract stub (justified by unit C03.parse_padding).
// =================================================================================================================
use crate::de::DeserializerCommon;
use crate::dbus::de::Deserializer as DbusDe;
use serde::Deserialize as _;
type Fd0 = std::os::fd::BorrowedFd<'static>;

fn stub_parse_padding_rt<'de: 'de, 'a: 'a, 'b: 'b, F>(
    this: &mut DeserializerCommon<'de, 'a, 'b, F>,
    alignment: usize,
) -> Result<usize> {
    assert!(alignment == 1 || alignment == 2 || alignment == 4 || alignment == 8,
            "C03.parse_padding.requires_valid_alignment");
    let p = spec_pad(this.ctxt.position() + this.pos, alignment);
    if p == 0 {
        return Ok(0);
    }
    if this.pos + p > this.bytes.len() {
        return Err(Error::OutOfBounds);
    }
    let b = this.bytes;
    let s = this.pos;
    let nz = b[s] != 0
        || (p > 1 && b[s + 1] != 0)
        || (p > 2 && b[s + 2] != 0)
        || (p > 3 && b[s + 3] != 0)
        || (p > 4 && b[s + 4] != 0)
        || (p > 5 && b[s + 5] != 0)
        || (p > 6 && b[s + 6] != 0);
    if nz {
        return Err(Error::PaddingNot0(1));
    }
    this.pos += p;
    Ok(p)
}

trait RtBits { fn rt_bits(self) -> u64; }
impl RtBits for u8 { fn rt_bits(self) -> u64 { self as u64 } }
impl RtBits for bool { fn rt_bits(self) -> u64 { self as u64 } }
impl RtBits for u16 { fn rt_bits(self) -> u64 { self as u64 } }
impl RtBits for i16 { fn rt_bits(self) -> u64 { self as u16 as u64 } }
impl RtBits for u32 { fn rt_bits(self) -> u64 { self as u64 } }
impl RtBits for i32 { fn rt_bits(self) -> u64 { self as u32 as u64 } }
impl RtBits for u64 { fn rt_bits(self) -> u64 { self } }
impl RtBits for i64 { fn rt_bits(self) -> u64 { self as u64 } }
impl RtBits for f64 { fn rt_bits(self) -> u64 { self.to_bits() } }
impl RtBits for i8 { fn rt_bits(self) -> u64 { self as u8 as u64 } }
impl RtBits for f32 { fn rt_bits(self) -> u64 { if self.is_nan() { 0x7fc0_0000 } else { self.to_bits() as u64 } } } // NaN payload is not preserved by f32->f64->f32 on every target: compare NaN-ness only

macro_rules! rt_fixed_unit {
    ($name:ident, $ty:ty, $sig:expr, $method:ident, $o_ok:literal, $o_val:literal, $o_len:literal) => {
        #[cfg(kani)]
        #[kani::proof]
        #[kani::stub(alloc::fmt::format, stub_format)]
        #[kani::stub(<Signature as std::clone::Clone>::clone, stub_sig_clone)]
        #[kani::stub(DeserializerCommon::parse_padding, stub_parse_padding_rt)]
        #[kani::unwind(3)]
        fn $name() {
            let mut buf: [u8; 24] = kani::any();
            let w0: usize = kani::any();
            kani::assume(w0 <= 8);
            let v: $ty = kani::any();
            let sig: &'static Signature = $sig;
            let (endian, abs0, written) = {
                let mut cur: Cur<'_> = Cursor::new(&mut buf[..]);
                cur.set_position(w0 as u64);
                let mut fds = ManuallyDrop::new(FdList::Number(0));
                let (mut ser, _big) = any_ser(&mut cur, &mut fds, sig);
                let bw0 = ser.0.bytes_written;
                let abs0 = ser.0.ctxt.position() + bw0;
                let r = serde::Serializer::$method(&mut *ser, v);
                kani::assume(r.is_ok()); // C01.ser_* units prove Ok for every admissible state
                core::mem::forget(r);
                (ser.0.ctxt.endian(), abs0, ser.0.bytes_written - bw0)
            };
            kani::assume(abs0 >= w0);
            // decoder over exactly the bytes written (nothing after them), same absolute position / byte order
            let bytes = &buf[..w0 + written];
            let mut de: DbusDe<'_, 'static, 'static, Fd0> = DbusDe(DeserializerCommon {
                ctxt: Context::new_dbus(endian, abs0 - w0),
                bytes,
                fds: None,
                pos: w0,
                signature: sig,
                container_depths: ContainerDepths::default(),
            });
            let r = <$ty>::deserialize(&mut de);
            obl!($o_ok, r.is_ok());
            if let Ok(got) = &r {
                obl!($o_val, (*got).rt_bits() == v.rt_bits());
            }
            obl!($o_len, de.0.pos - w0 == written);
            kani::cover!(r.is_ok() && written > core::mem::size_of::<$ty>() || core::mem::size_of::<$ty>() == 1, "cover.roundtrip_with_padding");
            kani::cover!(r.is_ok() && endian == Endian::Big, "cover.roundtrip_big_endian");
            core::mem::forget(r);
        }
    };
}
// @unit C02.rt_u8 props=C02 kind=complete fn=<&mut.zvariant::dbus::Serializer.as.serde::Serializer>::serialize_u8,<&mut.zvariant::dbus::Deserializer.as.serde::Deserializer>::deserialize_u8 stubs=C03.parse_padding timeout=1800
#[cfg(not(verif_skip_c02_rt_u8__complete))]
rt_fixed_unit!(c02_rt_u8__complete, u8, &SIG_Y, serialize_u8, "C02.rt_u8.decodes", "C02.rt_u8.value_equal", "C02.rt_u8.consumed_equals_written");
// @unit C02.rt_bool props=C02 kind=complete fn=<&mut.zvariant::dbus::Serializer.as.serde::Serializer>::serialize_bool,<&mut.zvariant::dbus::Deserializer.as.serde::Deserializer>::deserialize_bool stubs=C03.parse_padding timeout=1800
#[cfg(not(verif_skip_c02_rt_bool__complete))]
rt_fixed_unit!(c02_rt_bool__complete, bool, <bool as Type>::SIGNATURE, serialize_bool, "C02.rt_bool.decodes", "C02.rt_bool.value_equal", "C02.rt_bool.consumed_equals_written");
// @unit C02.rt_i16 props=C02 kind=complete fn=<&mut.zvariant::dbus::Serializer.as.serde::Serializer>::serialize_i16,<&mut.zvariant::dbus::Deserializer.as.serde::Deserializer>::deserialize_i16 stubs=C03.parse_padding timeout=1800
#[cfg(not(verif_skip_c02_rt_i16__complete))]
rt_fixed_unit!(c02_rt_i16__complete, i16, <i16 as Type>::SIGNATURE, serialize_i16, "C02.rt_i16.decodes", "C02.rt_i16.value_equal", "C02.rt_i16.consumed_equals_written");
// @unit C02.rt_u16 props=C02 kind=complete fn=<&mut.zvariant::dbus::Serializer.as.serde::Serializer>::serialize_u16,<&mut.zvariant::dbus::Deserializer.as.serde::Deserializer>::deserialize_u16 stubs=C03.parse_padding timeout=1800
#[cfg(not(verif_skip_c02_rt_u16__complete))]
rt_fixed_unit!(c02_rt_u16__complete, u16, <u16 as Type>::SIGNATURE, serialize_u16, "C02.rt_u16.decodes", "C02.rt_u16.value_equal", "C02.rt_u16.consumed_equals_written");
// @unit C02.rt_i32 props=C02 kind=complete fn=<&mut.zvariant::dbus::Serializer.as.serde::Serializer>::serialize_i32,<&mut.zvariant::dbus::Deserializer.as.serde::Deserializer>::deserialize_i32 stubs=C03.parse_padding timeout=1800
#[cfg(not(verif_skip_c02_rt_i32__complete))]
rt_fixed_unit!(c02_rt_i32__complete, i32, &SIG_I, serialize_i32, "C02.rt_i32.decodes", "C02.rt_i32.value_equal", "C02.rt_i32.consumed_equals_written");
// @unit C02.rt_u32 props=C02 kind=complete fn=<&mut.zvariant::dbus::Serializer.as.serde::Serializer>::serialize_u32,<&mut.zvariant::dbus::Deserializer.as.serde::Deserializer>::deserialize_u32 stubs=C03.parse_padding timeout=1800
#[cfg(not(verif_skip_c02_rt_u32__complete))]
rt_fixed_unit!(c02_rt_u32__complete, u32, &SIG_U, serialize_u32, "C02.rt_u32.decodes", "C02.rt_u32.value_equal", "C02.rt_u32.consumed_equals_written");
// @unit C02.rt_i64 props=C02 kind=complete fn=<&mut.zvariant::dbus::Serializer.as.serde::Serializer>::serialize_i64,<&mut.zvariant::dbus::Deserializer.as.serde::Deserializer>::deserialize_i64 stubs=C03.parse_padding timeout=1800
#[cfg(not(verif_skip_c02_rt_i64__complete))]
rt_fixed_unit!(c02_rt_i64__complete, i64, <i64 as Type>::SIGNATURE, serialize_i64, "C02.rt_i64.decodes", "C02.rt_i64.value_equal", "C02.rt_i64.consumed_equals_written");
// @unit C02.rt_u64 props=C02 kind=complete fn=<&mut.zvariant::dbus::Serializer.as.serde::Serializer>::serialize_u64,<&mut.zvariant::dbus::Deserializer.as.serde::Deserializer>::deserialize_u64 stubs=C03.parse_padding timeout=1800
#[cfg(not(verif_skip_c02_rt_u64__complete))]
rt_fixed_unit!(c02_rt_u64__complete, u64, &SIG_T, serialize_u64, "C02.rt_u64.decodes", "C02.rt_u64.value_equal", "C02.rt_u64.consumed_equals_written");
// @unit C02.rt_f64 props=C02 kind=complete fn=<&mut.zvariant::dbus::Serializer.as.serde::Serializer>::serialize_f64,<&mut.zvariant::dbus::Deserializer.as.serde::Deserializer>::deserialize_f64 stubs=C03.parse_padding timeout=1800
#[cfg(not(verif_skip_c02_rt_f64__complete))]
rt_fixed_unit!(c02_rt_f64__complete, f64, <f64 as Type>::SIGNATURE, serialize_f64, "C02.rt_f64.decodes", "C02.rt_f64.value_equal_bitwise_incl_nan", "C02.rt_f64.consumed_equals_written");

// ---- C02 composed unit for strings (bounded): real serialize_str -> real <&str>::deserialize on exactly the bytes written
// requires v ASCII without NUL, length <= 3 (bounded)
// ensures  decoded string == v (same length, same bytes) and consumed == written
macro_rules! rt_str_unit {
    ($name:ident, $n:expr, $sig:expr, $o_ok:literal, $o_val:literal, $o_len:literal) => {
        #[cfg(kani)]
        #[kani::proof]
        #[kani::stub(alloc::fmt::format, stub_format)]
        #[kani::stub(<Signature as std::str::FromStr>::from_str, stub_sig_from_str_any)]
        #[kani::stub(<Signature as std::clone::Clone>::clone, stub_sig_clone)]
        #[kani::stub(DeserializerCommon::parse_padding, stub_parse_padding_rt)]
        #[kani::unwind(6)]
        fn $name() {
            let mut buf: [u8; 24] = kani::any();
            let w0: usize = kani::any();
            kani::assume(w0 <= 8);
            let content: [u8; $n] = kani::any();
            let mut k = 0;
            while k < $n { kani::assume(content[k] != 0 && content[k] < 0x80); k += 1; }
            let l: usize = kani::any();
            kani::assume(l <= $n);
            let v: &str = unsafe { core::str::from_utf8_unchecked(&content[..l]) };
            let sig: &'static Signature = $sig;
            let (endian, abs0, written) = {
                let mut cur: Cur<'_> = Cursor::new(&mut buf[..]);
                cur.set_position(w0 as u64);
                let mut fds = ManuallyDrop::new(FdList::Number(0));
                let (mut ser, _big) = any_ser(&mut cur, &mut fds, sig);
                let bw0 = ser.0.bytes_written;
                let abs0 = ser.0.ctxt.position() + bw0;
                let r = serde::Serializer::serialize_str(&mut *ser, v);
                kani::assume(r.is_ok()); // C01.ser_str.* units prove Ok for every admissible state
                core::mem::forget(r);
                (ser.0.ctxt.endian(), abs0, ser.0.bytes_written - bw0)
            };
            kani::assume(abs0 >= w0);
            let bytes = &buf[..w0 + written];
            let mut de: DbusDe<'_, 'static, 'static, Fd0> = DbusDe(DeserializerCommon {
                ctxt: Context::new_dbus(endian, abs0 - w0),
                bytes,
                fds: None,
                pos: w0,
                signature: sig,
                container_depths: ContainerDepths::default(),
            });
            let r = <&str>::deserialize(&mut de);
            obl!($o_ok, r.is_ok());
            if let Ok(got) = &r {
                let i: usize = kani::any();
                kani::assume(i < $n);
                obl!($o_val, got.len() == l && (i >= l || got.as_bytes()[i] == content[i]));
            }
            obl!($o_len, de.0.pos - w0 == written);
            kani::cover!(r.is_ok() && l == $n, "cover.full_length");
            kani::cover!(r.is_ok() && l == 0, "cover.empty");
            core::mem::forget(r);
        }
    };
}
// @unit C02.rt_str.s props=C02 kind=bounded bound=ASCII-without-NUL,L<=3 fn=<&mut.zvariant::dbus::Serializer.as.serde::Serializer>::serialize_str,<&mut.zvariant::dbus::Deserializer.as.serde::Deserializer>::deserialize_str stubs=C03.parse_padding timeout=1800
#[cfg(not(verif_skip_c02_rt_str_s__l3))]
rt_str_unit!(c02_rt_str_s__l3, 3, &SIG_S, "C02.rt_str.s.decodes", "C02.rt_str.s.value_equal", "C02.rt_str.s.consumed_equals_written");
// @unit C02.rt_str.g props=C02 kind=bounded bound=ASCII-without-NUL,L<=3 fn=<&mut.zvariant::dbus::Serializer.as.serde::Serializer>::serialize_str,<&mut.zvariant::dbus::Deserializer.as.serde::Deserializer>::deserialize_str timeout=1800
#[cfg(not(verif_skip_c02_rt_str_g__l3))]
rt_str_unit!(c02_rt_str_g__l3, 3, &SIG_G, "C02.rt_str.g.decodes", "C02.rt_str.g.value_equal", "C02.rt_str.g.consumed_equals_written");

// i8 and f32 have no D-Bus type: zvariant widens them to INT16 / DOUBLE on the wire and narrows on the way back
// @unit C02.rt_i8 props=C02 kind=complete fn=<&mut.zvariant::dbus::Serializer.as.serde::Serializer>::serialize_i8,<&mut.zvariant::dbus::Deserializer.as.serde::Deserializer>::deserialize_i8 stubs=C03.parse_padding timeout=1800
#[cfg(not(verif_skip_c02_rt_i8__complete))]
rt_fixed_unit!(c02_rt_i8__complete, i8, <i8 as Type>::SIGNATURE, serialize_i8, "C02.rt_i8.decodes", "C02.rt_i8.value_equal", "C02.rt_i8.consumed_equals_written");
// @unit C02.rt_f32 props=C02 kind=complete fn=<&mut.zvariant::dbus::Serializer.as.serde::Serializer>::serialize_f32,<&mut.zvariant::dbus::Deserializer.as.serde::Deserializer>::deserialize_f32 stubs=C03.parse_padding timeout=1800
#[cfg(not(verif_skip_c02_rt_f32__complete))]
rt_fixed_unit!(c02_rt_f32__complete, f32, <f32 as Type>::SIGNATURE, serialize_f32, "C02.rt_f32.decodes", "C02.rt_f32.value_equal", "C02.rt_f32.consumed_equals_written");

#[cfg(all(kani, test))]
mod playback {
    use super::*;
    include!("/verif/.build/playback/zvariant__dbus__ser.rs");
}
