// Contracts for zvariant/src/object_path.rs (child module: sees the private `validate`)
#![allow(unused_imports, dead_code)]
use super::*;
include!("/verif/harness/common.rs");
include!("/verif/spec/names.rs");

// contract validate(b): ensures is_ok() <=> spec_object_path(b)   for every byte string of length <= N
macro_rules! object_path_unit {
    ($name:ident, $n:expr, $unwind:expr, $o_iff:literal) => {
        #[cfg(kani)]
        #[kani::proof]
        #[kani::unwind($unwind)]
        fn $name() {
            let buf: [u8; $n] = kani::any();
            let len: usize = kani::any();
            kani::assume(len <= $n);
            let s = &buf[..len];
            let r = validate(s);
            let got = r.is_ok();
            core::mem::forget(r);
            obl!($o_iff, got == spec_object_path(s));
            kani::cover!(got && len == $n, "cover.accepted_full_length");
            kani::cover!(!got, "cover.rejected");
        }
    };
}
// @unit C10.object_path.n6 props=C10,C03 kind=bounded bound=N<=6 fn=zvariant::object_path::validate timeout=1200
#[cfg(not(verif_skip_c10_object_path__n6))]
object_path_unit!(c10_object_path__n6, 6, 9, "C10.object_path.n6.accepts_iff_spec");
// @unit C10.object_path.n10 props=C10,C03 kind=bounded bound=N<=10 tier=thorough fn=zvariant::object_path::validate timeout=2400
#[cfg(not(verif_skip_c10_object_path__n10))]
object_path_unit!(c10_object_path__n10, 10, 13, "C10.object_path.n10.accepts_iff_spec");

// Small complete-alphabet unit (cheap even when the validator's character predicate gets expensive): "/" followed by
// ONE byte of ANY value (all 256) and optionally a second one -- every byte class directly after the separator.
// @unit C10.object_path.one_any_byte props=C10,C03 kind=bounded bound="/"+any-byte+optional-byte fn=zvariant::object_path::validate timeout=1200
#[cfg(not(verif_skip_c10_object_path__anybyte))]
#[cfg(kani)]
#[kani::proof]
#[kani::unwind(6)]
fn c10_object_path__anybyte() {
    let b1: u8 = kani::any();
    let b2: u8 = kani::any();
    let buf = [b'/', b1, b2];
    let len: usize = kani::any();
    kani::assume(len == 2 || len == 3);
    let s = &buf[..len];
    let r = validate(s);
    let got = r.is_ok();
    core::mem::forget(r);
    obl!("C10.object_path.one_any_byte.accepts_iff_spec", got == spec_object_path(s));
    kani::cover!(got && len == 3, "cover.accepted");
    kani::cover!(!got && b1 >= 0x80, "cover.non_ascii_rejected");
}

// Non-ASCII instances (concrete): UTF-8 sequences whose bytes are "alphanumeric" when misread as Latin-1 / Unicode
// scalar values must be rejected -- only ASCII [A-Za-z0-9_] elements are valid.
// @unit C10.object_path.non_ascii_instances props=C10,C03 kind=instance bound=concrete:"/µ","/ê","/münchen","/a/é" fn=zvariant::object_path::validate,<zvariant::ObjectPath.as.TryFrom<&str>>::try_from timeout=1200
#[cfg(not(verif_skip_c10_object_path__non_ascii))]
#[cfg(kani)]
#[kani::proof]
#[kani::unwind(14)]
fn c10_object_path__non_ascii() {
    let k: u8 = kani::any();
    kani::assume(k < 4);
    let s: &str = match k { 0 => "/\u{b5}", 1 => "/\u{ea}", 2 => "/m\u{fc}nchen", _ => "/a/\u{e9}" };
    let r1 = validate(s.as_bytes());
    let ok1 = r1.is_ok();
    core::mem::forget(r1);
    obl!("C10.object_path.non_ascii_instances.validator_rejects", !ok1);
    let r2 = ObjectPath::try_from(s);
    let ok2 = r2.is_ok();
    core::mem::forget(r2);
    obl!("C10.object_path.non_ascii_instances.constructor_rejects", !ok2);
}

// "however constructed": TryFrom<&str> and from_static_str accept exactly the grammar (ASCII, N <= 5)
// @unit C10.try_from.object_path props=C10 kind=bounded bound=ASCII,N<=5 fn=<zvariant::ObjectPath.as.TryFrom<&str>>::try_from,zvariant::ObjectPath::from_static_str timeout=1200
#[cfg(not(verif_skip_c10_try_from_object_path__n5))]
#[cfg(kani)]
#[kani::proof]
#[kani::unwind(8)]
fn c10_try_from_object_path__n5() {
    let buf: [u8; 5] = kani::any();
    let len: usize = kani::any();
    kani::assume(len <= 5);
    let mut k = 0;
    while k < 5 { kani::assume(buf[k] < 128); k += 1; }
    let s: &str = unsafe { core::str::from_utf8_unchecked(&buf[..len]) };
    let want = spec_object_path(s.as_bytes());
    let r = ObjectPath::try_from(s);
    obl!("C10.try_from.object_path.accepts_iff_spec", r.is_ok() == want);
    if let Ok(p) = &r {
        obl!("C10.try_from.object_path.same_string", p.as_str().len() == len);
    }
    kani::cover!(r.is_ok(), "cover.accepted");
    kani::cover!(r.is_err(), "cover.rejected");
    core::mem::forget(r);
}

#[cfg(all(kani, test))]
mod playback {
    use super::*;
    include!("/verif/.build/playback/zvariant__object_path.rs");
}
