// Contracts for zvariant/src/object_path.rs (child module: sees the private `validate`)
#![allow(unused_imports, dead_code)]
use super::*;
include!("/verif/harness/common.rs");
include!("/verif/spec/names.rs");

// contract validate(b): ensures is_ok() <=> spec_object_path(b)   for every byte string of length <= N
macro_rules! object_path_unit {
    ($name:ident, $n:expr, $unwind:expr, $o_iff:literal) => {
        #[cfg(kani)]
        #[kani::proof]
        #[kani::unwind($unwind)]
        fn $name() {
            let buf: [u8; $n] = kani::any();
            let len: usize = kani::any();
            kani::assume(len <= $n);
            let s = &buf[..len];
            let r = validate(s);
            let got = r.is_ok();
            core::mem::forget(r);
            obl!($o_iff, got == spec_object_path(s));
            kani::cover!(got && len == $n, "cover.accepted_full_length");
            kani::cover!(!got, "cover.rejected");
        }
    };
}
// @unit C10.object_path.n6 props=C10,C03 kind=bounded bound=N<=6 fn=zvariant::object_path::validate timeout=600
#[cfg(not(verif_skip_c10_object_path__n6))]
object_path_unit!(c10_object_path__n6, 6, 9, "C10.object_path.n6.accepts_iff_spec");
// @unit C10.object_path.n10 props=C10,C03 kind=bounded bound=N<=10 tier=thorough fn=zvariant::object_path::validate timeout=1800
#[cfg(not(verif_skip_c10_object_path__n10))]
object_path_unit!(c10_object_path__n10, 10, 13, "C10.object_path.n10.accepts_iff_spec");

// "however constructed": TryFrom<&str> and from_static_str accept exactly the grammar (ASCII, N <= 5)
// @unit C10.try_from.object_path props=C10 kind=bounded bound=ASCII,N<=5 fn=<zvariant::ObjectPath.as.TryFrom<&str>>::try_from,zvariant::ObjectPath::from_static_str timeout=600
#[cfg(not(verif_skip_c10_try_from_object_path__n5))]
#[cfg(kani)]
#[kani::proof]
#[kani::unwind(8)]
fn c10_try_from_object_path__n5() {
    let buf: [u8; 5] = kani::any();
    let len: usize = kani::any();
    kani::assume(len <= 5);
    let mut k = 0;
    while k < 5 { kani::assume(buf[k] < 128); k += 1; }
    let s: &str = unsafe { core::str::from_utf8_unchecked(&buf[..len]) };
    let want = spec_object_path(s.as_bytes());
    let r = ObjectPath::try_from(s);
    obl!("C10.try_from.object_path.accepts_iff_spec", r.is_ok() == want);
    if let Ok(p) = &r {
        obl!("C10.try_from.object_path.same_string", p.as_str().len() == len);
    }
    kani::cover!(r.is_ok(), "cover.accepted");
    kani::cover!(r.is_err(), "cover.rejected");
    core::mem::forget(r);
}

#[cfg(all(kani, test))]
mod playback {
    use super::*;
    include!("/verif/.build/playback/zvariant__object_path.rs");
}
