// Contracts for the GVariant framing machinery (zvariant/src/framing_offset_size.rs, framing_offsets.rs) and the
// GVariant alignment / fixed-size tables (zvariant_utils Signature::alignment(Format::GVariant), is_fixed_sized).
// Textually included into the `zvariant::utils` verification module (needs `--features gvariant`); everything used
// here is pub(crate), so no further hook is needed.
#[cfg(feature = "gvariant")]
mod gv {
    #![allow(unused_imports, dead_code)]
    use crate::framing_offset_size::FramingOffsetSize;
    use crate::framing_offsets::FramingOffsets;
    use crate::serialized::Format;
    use crate::Signature;
    use std::io::Cursor;
    fn stub_format(_args: core::fmt::Arguments<'_>) -> String { String::new() }
    macro_rules! obl { ($id:literal, $cond:expr) => { assert!($cond, $id); }; }

    // ---- spec (GVariant specification, "Framing Offsets"): an offset is stored little-endian in the smallest of
    //      1, 2, 4, 8 bytes that can address the whole container INCLUDING the offsets themselves.
    fn spec_width(container_len: usize, n: usize) -> usize {
        let l = container_len as u128;
        let n = n as u128;
        if l + n <= 0xff { 1 } else if l + 2 * n <= 0xffff { 2 } else if l + 4 * n <= 0xffff_ffff { 4 } else { 8 }
    }
    fn width_of(s: FramingOffsetSize) -> usize { s as usize }

    // ---- contract: FramingOffsetSize::for_bare_container (Kani twin of the Verus unit: bit-precise usize) ----------
    // requires len + 8*n <= usize::MAX (otherwise the container is not addressable: the code panics by design)
    // ensures  width = spec_width(len, n)
    // @unit C05.for_bare_container props=C05 kind=complete features=gvariant fn=zvariant::framing_offset_size::FramingOffsetSize::for_bare_container timeout=1200
#[cfg(not(verif_skip_c05_for_bare_container__complete))]
    #[cfg(kani)]
    #[kani::proof]
    #[kani::stub(alloc::fmt::format, stub_format)]
    #[kani::unwind(6)]
    fn c05_for_bare_container__complete() {
        let len: usize = kani::any();
        let n: usize = kani::any();
        kani::assume((len as u128) + 8 * (n as u128) <= usize::MAX as u128);
        let w = FramingOffsetSize::for_bare_container(len, n);
        obl!("C05.for_bare_container.minimal_width_that_fits", width_of(w) == spec_width(len, n));
        kani::cover!(width_of(w) == 2 && len == 255 && n == 1, "cover.threshold_255_crossed_by_the_offsets_themselves");
        kani::cover!(width_of(w) == 8, "cover.u64");
    }

    // ---- contract: FramingOffsetSize::write_offset -------------------------------------------------------------------
    // requires offset representable in the width (callers pass offsets <= container size, which fits by for_bare_container)
    // ensures  exactly `width` bytes written at the writer position, little-endian value of the offset; nothing else
    // @unit C05.write_offset props=C05 kind=complete features=gvariant fn=zvariant::framing_offset_size::FramingOffsetSize::write_offset timeout=1200
#[cfg(not(verif_skip_c05_write_offset__complete))]
    #[cfg(kani)]
    #[kani::proof]
    #[kani::stub(alloc::fmt::format, stub_format)]
    #[kani::unwind(3)]
    fn c05_write_offset__complete() {
        let buf0: [u8; 16] = kani::any();
        let mut buf = buf0;
        let w0: usize = kani::any();
        kani::assume(w0 <= 8);
        let k: u8 = kani::any();
        kani::assume(k < 4);
        let size = match k { 0 => FramingOffsetSize::U8, 1 => FramingOffsetSize::U16, 2 => FramingOffsetSize::U32, _ => FramingOffsetSize::U64 };
        let width = width_of(size);
        let offset: usize = kani::any();
        kani::assume(width == 8 || (offset as u128) < (1u128 << (8 * width)));
        let wpos;
        {
            let mut cur = Cursor::new(&mut buf[..]);
            cur.set_position(w0 as u64);
            let r = size.write_offset(&mut cur, offset);
            obl!("C05.write_offset.ok", r.is_ok());
            core::mem::forget(r);
            wpos = cur.position() as usize;
        }
        obl!("C05.write_offset.writes_exactly_width_bytes", wpos == w0 + width);
        let i: usize = kani::any();
        kani::assume(i < 16);
        if i >= w0 && i < w0 + width {
            obl!("C05.write_offset.little_endian_value", buf[i] == ((offset as u64) >> (8 * (i - w0))) as u8);
        } else {
            obl!("C05.write_offset.frame", buf[i] == buf0[i]);
        }
        kani::cover!(width == 4 && offset > 0xffff, "cover.u32");
    }

    // ---- contract: FramingOffsetSize::read_last_offset_from_buffer ---------------------------------------------------
    // requires buffer empty or at least `width` bytes long (what from_encoded_array / the decoders pass)
    // ensures  0 for the empty buffer, otherwise the little-endian value of the LAST `width` bytes
    // @unit C05.read_last_offset props=C05 kind=bounded bound=buffer<=12 features=gvariant fn=zvariant::framing_offset_size::FramingOffsetSize::read_last_offset_from_buffer timeout=1200
#[cfg(not(verif_skip_c05_read_last_offset__n12))]
    #[cfg(kani)]
    #[kani::proof]
    #[kani::stub(alloc::fmt::format, stub_format)]
    #[kani::unwind(10)]
    fn c05_read_last_offset__n12() {
        let buf: [u8; 12] = kani::any();
        let len: usize = kani::any();
        kani::assume(len <= 12);
        let k: u8 = kani::any();
        kani::assume(k < 4);
        let size = match k { 0 => FramingOffsetSize::U8, 1 => FramingOffsetSize::U16, 2 => FramingOffsetSize::U32, _ => FramingOffsetSize::U64 };
        let width = width_of(size);
        kani::assume(len == 0 || len >= width);
        let got = size.read_last_offset_from_buffer(&buf[..len]);
        let mut want: u64 = 0;
        if len > 0 {
            let mut j = 0;
            while j < width { want |= (buf[len - width + j] as u64) << (8 * j); j += 1; }
        }
        obl!("C05.read_last_offset.value_of_last_width_bytes_le", got as u64 == want);
        kani::cover!(len == 12 && width == 8, "cover.u64");
        kani::cover!(len == 0, "cover.empty");
    }

    // ---- contract: FramingOffsets::write_all ---------------------------------------------------------------------------
    // requires n <= 3 offsets (bounded), each <= container_len, container addressable
    // ensures  nothing written when there are no offsets; otherwise the offsets in insertion order, each in
    //          spec_width(container_len, n) bytes, little-endian
    // @unit C05.write_all props=C05 kind=bounded bound=offsets<=3 features=gvariant fn=zvariant::framing_offsets::FramingOffsets::write_all,zvariant::framing_offsets::FramingOffsets::push timeout=1800
#[cfg(not(verif_skip_c05_write_all__n3))]
    #[cfg(kani)]
    #[kani::proof]
    #[kani::stub(alloc::fmt::format, stub_format)]
    #[kani::unwind(6)]
    fn c05_write_all__n3() {
        let buf0: [u8; 32] = kani::any();
        let mut buf = buf0;
        let n: usize = kani::any();
        kani::assume(n <= 3);
        let container_len: usize = kani::any();
        kani::assume(container_len <= (u32::MAX as usize) * 4);
        let offs: [usize; 3] = kani::any();
        kani::assume(offs[0] <= container_len && offs[1] <= container_len && offs[2] <= container_len);
        let mut fo = FramingOffsets::new();
        let mut j = 0;
        while j < n { fo.push(offs[j]); j += 1; }
        let width = spec_width(container_len, n);
        let wpos;
        {
            let mut cur = Cursor::new(&mut buf[..]);
            let r = fo.write_all(&mut cur, container_len);
            obl!("C05.write_all.ok", r.is_ok());
            core::mem::forget(r);
            wpos = cur.position() as usize;
        }
        obl!("C05.write_all.total_bytes_is_n_times_minimal_width", wpos == n * width);
        let i: usize = kani::any();
        kani::assume(i < 32);
        if i < n * width {
            let which = i / width;
            obl!("C05.write_all.offsets_in_order_little_endian", buf[i] == ((offs[which] as u64) >> (8 * (i % width))) as u8);
        } else {
            obl!("C05.write_all.frame", buf[i] == buf0[i]);
        }
        kani::cover!(n == 3 && width == 2, "cover.three_u16_offsets");
        kani::cover!(n == 0, "cover.no_offsets");
    }

    // ---- contract: FramingOffsets::from_encoded_array (decoder side: hostile bytes) -------------------------------------
    // requires nothing about the bytes (any container of <= N bytes)
    // ensures  no panic / overflow / out-of-bounds for ANY bytes (C04: GVariant clause);
    //          Ok((offsets, offsets_len)) ==> offsets_len <= container length, offsets_len is a multiple of the offset
    //          width chosen for the container length, and every offset handed out is <= the start of the offset table
    //          (so a later slice `container[..offset]` stays inside the element area)
    // @unit C05.from_encoded_array props=C05,C04 kind=bounded bound=container<=6 features=gvariant fn=zvariant::framing_offsets::FramingOffsets::from_encoded_array timeout=1800
#[cfg(not(verif_skip_c05_from_encoded_array__n6))]
    #[cfg(kani)]
    #[kani::proof]
    #[kani::stub(alloc::fmt::format, stub_format)]
    #[kani::unwind(8)]
    fn c05_from_encoded_array__n6() {
        let buf: [u8; 6] = kani::any();
        let len: usize = kani::any();
        kani::assume(len <= 6);
        let container = &buf[..len];
        let r = FramingOffsets::from_encoded_array(container);
        match r {
            Ok((mut offs, offsets_len)) => {
                obl!("C05.from_encoded_array.table_inside_container", offsets_len <= len);
                let start = len - offsets_len;
                // width for containers this small is 1
                let first = offs.pop();
                if let Some(o) = first {
                    obl!("C05.from_encoded_array.offsets_point_before_the_table", o <= start);
                }
                kani::cover!(first.is_some() && offsets_len == 2, "cover.two_offsets");
                core::mem::forget(offs);
            }
            Err(e) => { core::mem::forget(e); }
        }
    }

    // NOTE (tool limit, measured): units for the GVariant alignment / fixed-size tables (Signature::alignment(Format::
    // GVariant), is_fixed_sized) over a static catalogue did not finish under CBMC -- 10 min timeouts even for fully
    // concrete container signatures, a crash at the 16 GB limit for the 13 basic types with a symbolic selector (the
    // table code recurses through iterator adapters, which the unwinding bound multiplies).  Verus cannot process the
    // iterator adapters either.  These two tables are therefore NOT under contract.

    #[cfg(all(kani, test))]
    mod playback_gv {
        use super::*;
        include!("/verif/.build/playback/zvariant__gvariant.rs");
    }
}
