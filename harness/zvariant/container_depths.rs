// Contracts for zvariant/src/container_depths.rs (child module: sees the private counters)
#![allow(unused_imports, dead_code)]
use super::*;
include!("/verif/harness/common.rs");
include!("/verif/spec/dbus.rs");

// Representation invariant wf(d): the counters describe a state within the limits.
#[cfg(not(feature = "gvariant"))]
fn maybe_of(_d: &ContainerDepths) -> u8 { 0 }
#[cfg(feature = "gvariant")]
fn maybe_of(d: &ContainerDepths) -> u8 { d.maybe }

fn wf(d: &ContainerDepths) -> bool {
    spec_depth_ok(d.structure as u32, d.array as u32, d.variant as u32, maybe_of(d) as u32)
}

/// Harness-only constructor used by the (de)serializer harnesses: a nesting state with the given counters.
pub(crate) fn mk_depths(structure: u8, array: u8, variant: u8) -> ContainerDepths {
    let mut d = ContainerDepths::default();
    d.structure = structure;
    d.array = array;
    d.variant = variant;
    d
}
pub(crate) fn counters(d: &ContainerDepths) -> (u8, u8, u8) { (d.structure, d.array, d.variant) }
pub(crate) fn wf_depths(d: &ContainerDepths) -> bool { wf(d) }

#[cfg(kani)]
fn any_depths() -> ContainerDepths {
    let mut d = ContainerDepths::default();
    d.structure = kani::any();
    d.array = kani::any();
    d.variant = kani::any();
    #[cfg(feature = "gvariant")]
    { d.maybe = kani::any(); }
    d
}

fn same_but(d0: &ContainerDepths, d1: &ContainerDepths, ds: u8, da: u8, dv: u8, dm: u8) -> bool {
    d1.structure == d0.structure + ds && d1.array == d0.array + da && d1.variant == d0.variant + dv
        && maybe_of(d1) == maybe_of(d0) + dm
}

// contract inc_X:  requires wf(self)
//   ensures  Ok(d')  <=> spec_depth_ok(self with X+1)            (accept iff within 32/32/64)
//            Ok(d')  ==> d' = self with X+1, every other counter unchanged   (frame)
//            Err(e)  ==> e = MaxDepthExceeded(kind) with kind naming the exceeded limit
macro_rules! inc_unit {
    ($name:ident, $method:ident, $ds:expr, $da:expr, $dv:expr, $dm:expr, $own_kind:expr,
     $o_iff:literal, $o_frame:literal, $o_kind:literal, $o_wf:literal) => {
        #[cfg(kani)]
        #[kani::proof]
        fn $name() {
            let d0 = any_depths();
            kani::assume(wf(&d0));
            let r = d0.$method();
            let expect_ok = spec_depth_ok(d0.structure as u32 + $ds, d0.array as u32 + $da,
                                          d0.variant as u32 + $dv, maybe_of(&d0) as u32 + $dm);
            obl!($o_iff, r.is_ok() == expect_ok);
            match &r {
                Ok(d1) => {
                    obl!($o_frame, same_but(&d0, d1, $ds as u8, $da as u8, $dv as u8, $dm as u8));
                    obl!($o_wf, wf(d1));
                }
                Err(Error::MaxDepthExceeded(k)) => {
                    // own limit (32) exceeded -> own kind, otherwise the total (64) -> Container
                    let own: Option<MaxDepthExceeded> = $own_kind;
                    let own_exceeded = match own {
                        Some(MaxDepthExceeded::Structure) => d0.structure as u32 + 1 > SPEC_MAX_STRUCT,
                        Some(MaxDepthExceeded::Array) => d0.array as u32 + 1 > SPEC_MAX_ARRAY,
                        _ => false,
                    };
                    let ok = match k {
                        MaxDepthExceeded::Structure => own_exceeded && matches!(own, Some(MaxDepthExceeded::Structure)),
                        MaxDepthExceeded::Array => own_exceeded && matches!(own, Some(MaxDepthExceeded::Array)),
                        MaxDepthExceeded::Container => !own_exceeded,
                    };
                    obl!($o_kind, ok);
                }
                Err(_) => { obl!($o_kind, false); }
            }
            kani::cover!(r.is_ok(), "cover.ok");
            kani::cover!(r.is_err(), "cover.err");
            core::mem::forget(r);
        }
    };
}

// @unit C07.inc_structure props=C07 kind=complete fn=zvariant::container_depths::ContainerDepths::inc_structure,zvariant::container_depths::ContainerDepths::check timeout=300
#[cfg(not(verif_skip_c07_inc_structure__complete))]
inc_unit!(c07_inc_structure__complete, inc_structure, 1, 0, 0, 0, Some(MaxDepthExceeded::Structure),
    "C07.inc_structure.ok_iff_within_limits", "C07.inc_structure.frame", "C07.inc_structure.err_kind", "C07.inc_structure.wf_preserved");
// @unit C07.inc_array props=C07 kind=complete fn=zvariant::container_depths::ContainerDepths::inc_array,zvariant::container_depths::ContainerDepths::check timeout=300
#[cfg(not(verif_skip_c07_inc_array__complete))]
inc_unit!(c07_inc_array__complete, inc_array, 0, 1, 0, 0, Some(MaxDepthExceeded::Array),
    "C07.inc_array.ok_iff_within_limits", "C07.inc_array.frame", "C07.inc_array.err_kind", "C07.inc_array.wf_preserved");
// @unit C07.inc_variant props=C07 kind=complete fn=zvariant::container_depths::ContainerDepths::inc_variant,zvariant::container_depths::ContainerDepths::check timeout=300
#[cfg(not(verif_skip_c07_inc_variant__complete))]
inc_unit!(c07_inc_variant__complete, inc_variant, 0, 0, 1, 0, None,
    "C07.inc_variant.ok_iff_within_limits", "C07.inc_variant.frame", "C07.inc_variant.err_kind", "C07.inc_variant.wf_preserved");
// @unit C07.inc_maybe props=C07 kind=complete features=gvariant tier=thorough fn=zvariant::container_depths::ContainerDepths::inc_maybe timeout=300
#[cfg(not(verif_skip_c07_inc_maybe__complete))]
#[cfg(feature = "gvariant")]
inc_unit!(c07_inc_maybe__complete, inc_maybe, 0, 0, 0, 1, None,
    "C07.inc_maybe.ok_iff_within_limits", "C07.inc_maybe.frame", "C07.inc_maybe.err_kind", "C07.inc_maybe.wf_preserved");

// contract dec_X:  requires wf(self) ∧ X > 0 ;  ensures exact inverse of inc_X, frame, wf preserved, no underflow panic
macro_rules! dec_unit {
    ($name:ident, $method:ident, $field:ident, $o_inv:literal, $o_wf:literal) => {
        #[cfg(kani)]
        #[kani::proof]
        fn $name() {
            let d0 = any_depths();
            kani::assume(wf(&d0));
            kani::assume(d0.$field > 0);
            let d1 = d0.$method();
            let mut expect = d0;
            expect.$field = d0.$field - 1;
            obl!($o_inv, same_but(&expect, &d1, 0, 0, 0, 0));
            obl!($o_wf, wf(&d1));
            kani::cover!(d1.$field == 31, "cover.31");
        }
    };
}
// @unit C07.dec_structure props=C07 kind=complete fn=zvariant::container_depths::ContainerDepths::dec_structure timeout=300
#[cfg(not(verif_skip_c07_dec_structure__complete))]
dec_unit!(c07_dec_structure__complete, dec_structure, structure, "C07.dec_structure.exact_inverse_and_frame", "C07.dec_structure.wf_preserved");
// @unit C07.dec_array props=C07 kind=complete fn=zvariant::container_depths::ContainerDepths::dec_array timeout=300
#[cfg(not(verif_skip_c07_dec_array__complete))]
dec_unit!(c07_dec_array__complete, dec_array, array, "C07.dec_array.exact_inverse_and_frame", "C07.dec_array.wf_preserved");
// @unit C07.dec_maybe props=C07 kind=complete features=gvariant tier=thorough fn=zvariant::container_depths::ContainerDepths::dec_maybe timeout=300
#[cfg(not(verif_skip_c07_dec_maybe__complete))]
#[cfg(feature = "gvariant")]
dec_unit!(c07_dec_maybe__complete, dec_maybe, maybe, "C07.dec_maybe.exact_inverse_and_frame", "C07.dec_maybe.wf_preserved");

// The same three inc contracts under --features gvariant (the total then includes `maybe`)
// @unit C07.inc_structure.gv props=C07 kind=complete features=gvariant tier=thorough fn=zvariant::container_depths::ContainerDepths::inc_structure timeout=300
#[cfg(not(verif_skip_c07_gv_inc_structure__complete))]
#[cfg(feature = "gvariant")]
inc_unit!(c07_gv_inc_structure__complete, inc_structure, 1, 0, 0, 0, Some(MaxDepthExceeded::Structure),
    "C07.inc_structure.gv.ok_iff_within_limits", "C07.inc_structure.gv.frame", "C07.inc_structure.gv.err_kind", "C07.inc_structure.gv.wf_preserved");
// @unit C07.inc_array.gv props=C07 kind=complete features=gvariant tier=thorough fn=zvariant::container_depths::ContainerDepths::inc_array timeout=300
#[cfg(not(verif_skip_c07_gv_inc_array__complete))]
#[cfg(feature = "gvariant")]
inc_unit!(c07_gv_inc_array__complete, inc_array, 0, 1, 0, 0, Some(MaxDepthExceeded::Array),
    "C07.inc_array.gv.ok_iff_within_limits", "C07.inc_array.gv.frame", "C07.inc_array.gv.err_kind", "C07.inc_array.gv.wf_preserved");
// @unit C07.inc_variant.gv props=C07 kind=complete features=gvariant tier=thorough fn=zvariant::container_depths::ContainerDepths::inc_variant timeout=300
#[cfg(not(verif_skip_c07_gv_inc_variant__complete))]
#[cfg(feature = "gvariant")]
inc_unit!(c07_gv_inc_variant__complete, inc_variant, 0, 0, 1, 0, None,
    "C07.inc_variant.gv.ok_iff_within_limits", "C07.inc_variant.gv.frame", "C07.inc_variant.gv.err_kind", "C07.inc_variant.gv.wf_preserved");

#[cfg(all(kani, test))]
mod playback {
    use super::*;
    include!("/verif/.build/playback/zvariant__container_depths.rs");
}
