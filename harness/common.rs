// Shared by every harness module (textually included).  Nothing here is a contract; it is plumbing.
//
// * `stub_format`: replacement for `alloc::fmt::format` (error-message text is never part of a
//   property; formatting dominates CBMC cost otherwise).  Listed as an unchecked assumption in evidence.
// * `obl!`: a named obligation (= one `ensures` clause).  The runner recognises obligations by the
//   `Cxx.<unit>.<clause>` form of the assertion description.
#[allow(dead_code)]
pub(crate) fn stub_format(_args: core::fmt::Arguments<'_>) -> String {
    String::new()
}

#[allow(unused_macros)]
macro_rules! obl {
    ($id:literal, $cond:expr) => {
        assert!($cond, $id);
    };
}
