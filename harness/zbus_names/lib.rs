// Contracts for the zbus_names validators (child module of the crate root: reaches the pub(crate)
// `validate_bytes` of every private module and the public TryFrom wiring).
#![allow(unused_imports, dead_code)]
use super::*;
include!("/verif/harness/common.rs");
include!("/verif/spec/names.rs");

// contract validate_bytes(b):  ensures result.is_ok() <=> spec(b)     for EVERY byte string of length <= N
// (all 256 byte values per position: non-ASCII, control characters and '.'/':' placement included)
#[cfg(kani)]
fn any_bytes<const N: usize>() -> ([u8; N], usize) {
    let buf: [u8; N] = kani::any();
    let len: usize = kani::any();
    kani::assume(len <= N);
    (buf, len)
}

macro_rules! validator_unit {
    ($name:ident, $n:expr, $unwind:expr, $validator:path, $spec:path, $o_iff:literal) => {
        #[cfg(kani)]
        #[kani::proof]
        #[kani::unwind($unwind)]
        fn $name() {
            let (buf, len) = any_bytes::<$n>();
            let s = &buf[..len];
            let got = $validator(s).is_ok();
            let want = $spec(s);
            obl!($o_iff, got == want);
            kani::cover!(got, "cover.accepted");
            kani::cover!(!got && len == $n, "cover.rejected_full_length");
        }
    };
}

// ---------------- quick tier: N = 6 ----------------
// @unit C10.unique_name.n6 props=C10 kind=bounded bound=N<=6 fn=zbus_names::unique_name::validate_bytes timeout=1200
#[cfg(not(verif_skip_c10_unique_name__n6))]
validator_unit!(c10_unique_name__n6, 6, 9, crate::unique_name::validate_bytes, spec_unique_name, "C10.unique_name.n6.accepts_iff_spec");
// @unit C10.well_known_name.n6 props=C10 kind=bounded bound=N<=6 fn=zbus_names::well_known_name::validate_bytes timeout=1200
#[cfg(not(verif_skip_c10_well_known_name__n6))]
validator_unit!(c10_well_known_name__n6, 6, 9, crate::well_known_name::validate_bytes, spec_well_known_name, "C10.well_known_name.n6.accepts_iff_spec");
// @unit C10.interface_name.n6 props=C10 kind=bounded bound=N<=6 fn=zbus_names::interface_name::validate_bytes timeout=1200
#[cfg(not(verif_skip_c10_interface_name__n6))]
validator_unit!(c10_interface_name__n6, 6, 9, crate::interface_name::validate_bytes, spec_interface_name, "C10.interface_name.n6.accepts_iff_spec");
// @unit C10.member_name.n6 props=C10 kind=bounded bound=N<=6 fn=zbus_names::member_name::validate_bytes timeout=1200
#[cfg(not(verif_skip_c10_member_name__n6))]
validator_unit!(c10_member_name__n6, 6, 9, crate::member_name::validate_bytes, spec_member_name, "C10.member_name.n6.accepts_iff_spec");

// ---------------- thorough tier: N = 10 ----------------
// @unit C10.unique_name.n10 props=C10 kind=bounded bound=N<=10 tier=thorough fn=zbus_names::unique_name::validate_bytes timeout=2400
#[cfg(not(verif_skip_c10_unique_name__n10))]
validator_unit!(c10_unique_name__n10, 10, 13, crate::unique_name::validate_bytes, spec_unique_name, "C10.unique_name.n10.accepts_iff_spec");
// @unit C10.well_known_name.n10 props=C10 kind=bounded bound=N<=10 tier=thorough fn=zbus_names::well_known_name::validate_bytes timeout=2400
#[cfg(not(verif_skip_c10_well_known_name__n10))]
validator_unit!(c10_well_known_name__n10, 10, 13, crate::well_known_name::validate_bytes, spec_well_known_name, "C10.well_known_name.n10.accepts_iff_spec");
// @unit C10.interface_name.n10 props=C10 kind=bounded bound=N<=10 tier=thorough fn=zbus_names::interface_name::validate_bytes timeout=2400
#[cfg(not(verif_skip_c10_interface_name__n10))]
validator_unit!(c10_interface_name__n10, 10, 13, crate::interface_name::validate_bytes, spec_interface_name, "C10.interface_name.n10.accepts_iff_spec");
// @unit C10.member_name.n10 props=C10 kind=bounded bound=N<=10 tier=thorough fn=zbus_names::member_name::validate_bytes timeout=2400
#[cfg(not(verif_skip_c10_member_name__n10))]
validator_unit!(c10_member_name__n10, 10, 13, crate::member_name::validate_bytes, spec_member_name, "C10.member_name.n10.accepts_iff_spec");

// ---- "however constructed": TryFrom<&str> accepts exactly what the grammar accepts (ASCII strings, N <= 5) ----
#[cfg(kani)]
fn any_ascii<const N: usize>() -> ([u8; N], usize) {
    let (buf, len) = any_bytes::<N>();
    let i: usize = kani::any();
    kani::assume(i < N);
    // every byte is ASCII (checked through one symbolic index => holds for all positions)
    let mut k = 0;
    while k < N { kani::assume(buf[k] < 128); k += 1; }
    let _ = i;
    (buf, len)
}

macro_rules! try_from_unit {
    ($name:ident, $n:expr, $unwind:expr, $ty:ty, $spec:path, $o_iff:literal, $o_same:literal) => {
        #[cfg(kani)]
        #[kani::proof]
        #[kani::unwind($unwind)]
        fn $name() {
            let (buf, len) = any_ascii::<$n>();
            let s: &str = unsafe { core::str::from_utf8_unchecked(&buf[..len]) };
            let r = <$ty>::try_from(s);
            obl!($o_iff, r.is_ok() == $spec(s.as_bytes()));
            if let Ok(n) = &r {
                obl!($o_same, n.as_str().len() == len);
            }
            kani::cover!(r.is_ok(), "cover.accepted");
            kani::cover!(r.is_err(), "cover.rejected");
            core::mem::forget(r);
        }
    };
}
// @unit C10.try_from.unique_name props=C10 kind=bounded bound=ASCII,N<=5 fn=<zbus_names::UniqueName.as.TryFrom<&str>>::try_from timeout=1200
#[cfg(not(verif_skip_c10_try_from_unique_name__n5))]
try_from_unit!(c10_try_from_unique_name__n5, 5, 8, UniqueName<'_>, spec_unique_name, "C10.try_from.unique_name.accepts_iff_spec", "C10.try_from.unique_name.same_string");
// @unit C10.try_from.well_known_name props=C10 kind=bounded bound=ASCII,N<=5 fn=<zbus_names::WellKnownName.as.TryFrom<&str>>::try_from timeout=1200
#[cfg(not(verif_skip_c10_try_from_well_known_name__n5))]
try_from_unit!(c10_try_from_well_known_name__n5, 5, 8, WellKnownName<'_>, spec_well_known_name, "C10.try_from.well_known_name.accepts_iff_spec", "C10.try_from.well_known_name.same_string");
// @unit C10.try_from.interface_name props=C10 kind=bounded bound=ASCII,N<=5 fn=<zbus_names::InterfaceName.as.TryFrom<&str>>::try_from timeout=1200
#[cfg(not(verif_skip_c10_try_from_interface_name__n5))]
try_from_unit!(c10_try_from_interface_name__n5, 5, 8, InterfaceName<'_>, spec_interface_name, "C10.try_from.interface_name.accepts_iff_spec", "C10.try_from.interface_name.same_string");
// @unit C10.try_from.error_name props=C10 kind=bounded bound=ASCII,N<=5 fn=<zbus_names::ErrorName.as.TryFrom<&str>>::try_from,zbus_names::error_name::validate timeout=1200
#[cfg(not(verif_skip_c10_try_from_error_name__n5))]
try_from_unit!(c10_try_from_error_name__n5, 5, 8, ErrorName<'_>, spec_interface_name, "C10.try_from.error_name.accepts_iff_spec", "C10.try_from.error_name.same_string");
// @unit C10.try_from.member_name props=C10 kind=bounded bound=ASCII,N<=5 fn=<zbus_names::MemberName.as.TryFrom<&str>>::try_from timeout=1200
#[cfg(not(verif_skip_c10_try_from_member_name__n5))]
try_from_unit!(c10_try_from_member_name__n5, 5, 8, MemberName<'_>, spec_member_name, "C10.try_from.member_name.accepts_iff_spec", "C10.try_from.member_name.same_string");
// @unit C10.try_from.property_name props=C10 kind=bounded bound=ASCII,N<=5 fn=<zbus_names::PropertyName.as.TryFrom<&str>>::try_from,zbus_names::property_name::ensure_correct_property_name timeout=1200
#[cfg(not(verif_skip_c10_try_from_property_name__n5))]
try_from_unit!(c10_try_from_property_name__n5, 5, 8, PropertyName<'_>, spec_property_name, "C10.try_from.property_name.accepts_iff_spec", "C10.try_from.property_name.same_string");
// @unit C10.try_from.bus_name props=C10 kind=bounded bound=ASCII,N<=5 fn=<zbus_names::BusName.as.TryFrom<&str>>::try_from timeout=1200
#[cfg(not(verif_skip_c10_try_from_bus_name__n5))]
try_from_unit!(c10_try_from_bus_name__n5, 5, 8, BusName<'_>, spec_bus_name, "C10.try_from.bus_name.accepts_iff_spec", "C10.try_from.bus_name.same_string");

// ---- the 255-byte limit: a concrete maximal-length valid name at length 254 / 255 / 256 (instances) -----
// (only the member-name instance is kept: the same unit for the dotted names never finishes, see the note below)
macro_rules! limit_unit {
    ($name:ident, $validator:path, $spec:path, $b0:expr, $b1:expr, $b2:expr, $b3:expr, $o:literal) => {
        #[cfg(kani)]
        #[kani::proof]
        #[kani::unwind(260)]
        fn $name() {
            let mut buf = [b'a'; 256];
            buf[0] = $b0; buf[1] = $b1; buf[2] = $b2; buf[3] = $b3;
            let len: usize = kani::any();
            kani::assume(len >= 254 && len <= 256);
            let s = &buf[..len];
            let got = $validator(s).is_ok();
            obl!($o, got == $spec(s));
            kani::cover!(got && len == 255, "cover.accepted_255");
            kani::cover!(!got && len == 256, "cover.rejected_256");
        }
    };
}
// @unit C10.limit255.member_name props=C10 kind=instance bound=concrete-template,len=254..256 tier=thorough fn=zbus_names::member_name::validate_bytes timeout=1800
#[cfg(not(verif_skip_c10_limit255_member_name__len3))]
limit_unit!(c10_limit255_member_name__len3, crate::member_name::validate_bytes, spec_member_name, b'a', b'a', b'a', b'a', "C10.limit255.member_name.accepts_iff_spec");

// NOTE (tool limit, measured): the same fully concrete 255/256-byte units for the DOTTED names (interface, error,
// well-known, unique, BusName dispatch) do not finish under CBMC (winnow `separated` over a 256-byte input: > 15 min
// each even with no symbolic input), so the 255-byte clause is decided for member names only; for dotted names it
// is stated in the validators' contracts (spec_* include len <= 255) but exercised only up to the string bound.
// ---- the 255-byte limit, fully concrete (quick tier): a valid-shaped name of exactly 255 bytes is accepted and of
// exactly 256 bytes is rejected -- by each validator AND by every public constructor ("however constructed":
// BusName dispatches to the validators directly, so a limit enforced only in a wrapper would be bypassed).
fn name_of<const L: usize>(b0: u8, b1: u8, b2: u8, b3: u8) -> [u8; L] {
    let mut buf = [b'a'; L];
    buf[0] = b0; buf[1] = b1; buf[2] = b2; buf[3] = b3;
    buf
}
macro_rules! limit_concrete_unit {
    ($name:ident, $b0:expr, $b1:expr, $b2:expr, $b3:expr, |$s:ident| $call:expr, $o255:literal, $o256:literal) => {
        #[cfg(kani)]
        #[kani::proof]
        #[kani::stub(alloc::fmt::format, stub_format)]
        #[kani::unwind(260)]
        fn $name() {
            let b255 = name_of::<255>($b0, $b1, $b2, $b3);
            let b256 = name_of::<256>($b0, $b1, $b2, $b3);
            {
                let $s: &str = unsafe { core::str::from_utf8_unchecked(&b255[..]) };
                let ok: bool = $call;
                obl!($o255, ok);
            }
            {
                let $s: &str = unsafe { core::str::from_utf8_unchecked(&b256[..]) };
                let ok: bool = $call;
                obl!($o256, !ok);
            }
        }
    };
}
fn ok_forget<T, E>(r: core::result::Result<T, E>) -> bool { let ok = r.is_ok(); core::mem::forget(r); ok }
// @unit C10.limit.member_name props=C10 kind=instance bound=concrete-names-of-255-and-256-bytes tier=thorough fn=zbus_names::member_name::validate_bytes,<zbus_names::MemberName.as.TryFrom<&str>>::try_from timeout=1800
#[cfg(not(verif_skip_c10_limit_member_name__c255))]
limit_concrete_unit!(c10_limit_member_name__c255, b'a', b'a', b'a', b'a',
    |s| crate::member_name::validate_bytes(s.as_bytes()).is_ok() && ok_forget(MemberName::try_from(s)),
    "C10.limit.member_name.255_bytes_accepted", "C10.limit.member_name.256_bytes_rejected");
// @unit C10.limit.member_name_ctor props=C10 kind=instance bound=concrete-names-of-255-and-256-bytes fn=<zbus_names::MemberName.as.TryFrom<&str>>::try_from timeout=1800
#[cfg(not(verif_skip_c10_limit_member_name_ctor__c255))]
limit_concrete_unit!(c10_limit_member_name_ctor__c255, b'a', b'a', b'a', b'a',
    |s| ok_forget(MemberName::try_from(s)),
    "C10.limit.member_name_ctor.255_bytes_accepted", "C10.limit.member_name_ctor.256_bytes_rejected");

// ---- "however constructed": conversion from a dynamic Value (what a proxy / a deserialized a{sv} entry hands over) ----
// ensures  Name::try_from(Value::Str(s)) is Ok  <=>  s satisfies the name's grammar          (ASCII, N <= 4)
macro_rules! try_from_value_unit {
    ($name:ident, $n:expr, $unwind:expr, $ty:ty, $spec:path, $o_valid:literal, $o_invalid:literal) => {
        #[cfg(kani)]
        #[kani::proof]
        #[kani::stub(alloc::fmt::format, stub_format)]
        #[kani::unwind($unwind)]
        fn $name() {
            let buf: [u8; $n] = kani::any();
            let len: usize = kani::any();
            kani::assume(len <= $n);
            let mut k = 0;
            while k < $n { kani::assume(buf[k] < 128); k += 1; }
            let s: &str = unsafe { core::str::from_utf8_unchecked(&buf[..len]) };
            let want = $spec(s.as_bytes());
            let v = zvariant::Value::Str(zvariant::Str::from(s));
            let r = <$ty>::try_from(v);
            let ok = r.is_ok();
            core::mem::forget(r);
            kani::cover!(ok && want, "cover.valid_accepted");
            kani::cover!(!want, "cover.invalid_input_reachable");
            // two clauses, so that the recorded finding about unvalidated conversions cannot mask a rejected valid name
            if want { obl!($o_valid, ok); } else { obl!($o_invalid, !ok); }
        }
    };
}
// @unit C10.try_from_value.member_name props=C10 kind=bounded bound=ASCII,N<=4 fn=<zbus_names::MemberName.as.TryFrom<zvariant::Value>>::try_from timeout=1200
#[cfg(not(verif_skip_c10_try_from_value_member_name__n4))]
try_from_value_unit!(c10_try_from_value_member_name__n4, 4, 7, MemberName<'_>, spec_member_name, "C10.try_from_value.member_name.valid_names_accepted", "C10.try_from_value.member_name.invalid_names_rejected");
// @unit C10.try_from_value.bus_name props=C10 kind=bounded bound=ASCII,N<=4 fn=<zbus_names::BusName.as.TryFrom<zvariant::Value>>::try_from timeout=1200
#[cfg(not(verif_skip_c10_try_from_value_bus_name__n4))]
try_from_value_unit!(c10_try_from_value_bus_name__n4, 4, 7, BusName<'_>, spec_bus_name, "C10.try_from_value.bus_name.valid_names_accepted", "C10.try_from_value.bus_name.invalid_names_rejected");

// ---- property names: the only rules are "non-empty" and "at most 255 BYTES" -- decided at the lengths around the limit on a
// NON-ASCII text (two bytes per character), so that a limit counted in characters instead of bytes is visible
// @unit C10.property_name.length props=C10 kind=bounded bound=lengths-0,2,254,256,300-bytes-of-two-byte-characters fn=<zbus_names::PropertyName.as.TryFrom<&str>>::try_from,zbus_names::property_name::ensure_correct_property_name timeout=1800
#[cfg(not(verif_skip_c10_property_name_length__b300))]
#[cfg(kani)]
#[kani::proof]
#[kani::stub(alloc::fmt::format, stub_format)]
#[kani::unwind(152)]
fn c10_property_name_length__b300() {
    // 150 characters x 2 bytes = 300 bytes of "é" (0xC3 0xA9)
    const BYTES: [u8; 300] = { let mut b = [0u8; 300]; let mut i = 0; while i < 300 { b[i] = if i % 2 == 0 { 0xC3 } else { 0xA9 }; i += 1; } b };
    // lengths around both limits (bytes: 0, 2, 254, 256; characters: 127, 128, 150), cut on character boundaries
    let k: u8 = kani::any();
    kani::assume(k < 5);
    let half: usize = match k { 0 => 0, 1 => 1, 2 => 127, 3 => 128, _ => 150 };
    let len = 2 * half;
    let s: &str = unsafe { core::str::from_utf8_unchecked(&BYTES[..len]) };
    let r = PropertyName::try_from(s);
    let ok = r.is_ok();
    core::mem::forget(r);
    obl!("C10.property_name.length.accepted_iff_1_to_255_bytes", ok == (len >= 1 && len <= 255));
    kani::cover!(ok && len == 254, "cover.accepted_254_bytes_127_chars");
    kani::cover!(!ok && len == 256, "cover.rejected_256_bytes_128_chars");
}

// @unit CANARY.zbus_names props=CANARY kind=complete expect=fail timeout=600
#[cfg(not(verif_skip_canary_zbus_names_must_fail))]
#[cfg(kani)]
#[kani::proof]
#[kani::unwind(6)]
fn canary_zbus_names_must_fail() {
    let (buf, len) = any_bytes::<3>();
    obl!("C00.canary.deliberately_false", crate::member_name::validate_bytes(&buf[..len]).is_err());
}

#[cfg(all(kani, test))]
mod playback {
    use super::*;
    include!("/verif/.build/playback/zbus_names__lib.rs");
}
