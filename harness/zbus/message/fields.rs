// Contracts for zbus/src/message/fields.rs: FieldPos (the cached positions of header fields inside the message
// buffer, "re-validated with expect()" when read back)            (child module: sees the private start/end)
#![allow(unused_imports, dead_code)]
use super::*;
include!("/verif/harness/common.rs");

// ---- contract: FieldPos::build(msg_buf, field) -----------------------------------------------------------------
// requires field is a sub-slice msg_buf[a..b] (what QuickFields::new passes: header fields borrow from the message)
// ensures  Some(pos) with pos.start = a, pos.end = b   (so a later read addresses exactly the same bytes, in bounds)
// @unit C12.field_pos.build props=C12 kind=bounded bound=buffer<=8 fn=zbus::message::fields::FieldPos::build timeout=1200
#[cfg(not(verif_skip_c12_field_pos_build__n8))]
#[cfg(kani)]
#[kani::proof]
#[kani::stub(alloc::fmt::format, stub_format)]
#[kani::unwind(10)]
fn c12_field_pos_build__n8() {
    let buf: [u8; 8] = kani::any();
    let mut k = 0;
    while k < 8 { kani::assume(buf[k] < 0x80); k += 1; } // ASCII: every sub-slice is a valid &str
    let len: usize = kani::any();
    kani::assume(len <= 8);
    let msg = &buf[..len];
    let a: usize = kani::any();
    let b: usize = kani::any();
    kani::assume(a <= b && b <= len);
    let field: &str = unsafe { core::str::from_utf8_unchecked(&msg[a..b]) };
    let r = FieldPos::build(msg, field);
    obl!("C12.field_pos.build.some_for_a_field_inside_the_message", r.is_some());
    if let Some(p) = r {
        obl!("C12.field_pos.build.exact_range", p.start as usize == a && p.end as usize == b);
        obl!("C12.field_pos.build.in_bounds", p.start <= p.end && p.end as usize <= msg.len());
    }
    kani::cover!(r.is_some() && a == b, "cover.empty_field");
    kani::cover!(r.is_some() && b == 8 && a == 0, "cover.whole_buffer");
}

// a field that does NOT live in the message buffer must never yield a position that reads out of bounds
// @unit C12.field_pos.build_foreign props=C12 kind=bounded bound=buffer<=8 fn=zbus::message::fields::FieldPos::build timeout=1200
#[cfg(not(verif_skip_c12_field_pos_build_foreign__n8))]
#[cfg(kani)]
#[kani::proof]
#[kani::stub(alloc::fmt::format, stub_format)]
#[kani::unwind(10)]
fn c12_field_pos_build_foreign__n8() {
    let buf: [u8; 8] = kani::any();
    let other: [u8; 8] = [b'a'; 8];
    let len: usize = kani::any();
    kani::assume(len <= 8);
    let msg = &buf[..len];
    let flen: usize = kani::any();
    kani::assume(flen <= 8);
    let field: &str = unsafe { core::str::from_utf8_unchecked(&other[..flen]) };
    let r = FieldPos::build(msg, field);
    if let Some(p) = r {
        obl!("C12.field_pos.build_foreign.in_bounds_if_some", p.start <= p.end && p.end as usize <= msg.len());
    }
    kani::cover!(r.is_none(), "cover.none");
}

// ---- contract: FieldPos::read on a position produced by build ON THE SAME BUFFER --------------------------------
// ensures  no panic (slice in bounds, bytes are the same valid UTF-8) ; Some(s) with s = the original field ;
//          the "not present" encodings read as None
// @unit C12.field_pos.read props=C12 kind=bounded bound=buffer<=8 fn=zbus::message::fields::FieldPos::read,zbus::message::fields::FieldPos::new_not_present timeout=1800
#[cfg(not(verif_skip_c12_field_pos_read__n8))]
#[cfg(kani)]
#[kani::proof]
#[kani::stub(alloc::fmt::format, stub_format)]
#[kani::unwind(10)]
fn c12_field_pos_read__n8() {
    let buf: [u8; 8] = kani::any();
    let mut k = 0;
    while k < 8 { kani::assume(buf[k] < 0x80); k += 1; }
    let len: usize = kani::any();
    kani::assume(len <= 8);
    let msg = &buf[..len];
    let a: usize = kani::any();
    let b: usize = kani::any();
    kani::assume(a <= b && b <= len);
    let present: bool = kani::any();
    let pos = if present { FieldPos { start: a as u32, end: b as u32 } } else { FieldPos::new_not_present() };
    kani::assume(!(present && b == 0)); // (start 0, end 0) is the "not cached" encoding, never produced for a present field by QuickFields
    let r: Option<&str> = pos.read::<&str>(msg);
    obl!("C12.field_pos.read.none_iff_not_present", r.is_some() == present);
    if let Some(s) = r {
        obl!("C12.field_pos.read.same_bytes", s.len() == b - a && s.as_ptr() == msg[a..b].as_ptr());
    }
    kani::cover!(r.is_some() && b - a == 8, "cover.full");
    kani::cover!(r.is_none(), "cover.none");
}

#[cfg(all(kani, test))]
mod playback {
    use super::*;
    include!("/verif/.build/playback/zbus__message__fields.rs");
}
