// Contracts for zbus/src/message/builder.rs: where the serial of a message that is BUILT comes from
// (child module of `zbus::message::builder`: sees the private `header` field of Builder)
#![allow(unused_imports, dead_code)]
use super::*;
use crate::message::header::PrimaryHeader as PH;
use core::mem::ManuallyDrop;
include!("/verif/harness/common.rs");

// ---- contract (C15): every builder -- including the reply builders -- carries a serial FRESHLY drawn from the counter --
// requires a call header whose serial was drawn earlier
// ensures  Builder::new(t): serial != 0 and it is the ticket drawn by this construction (PrimaryHeader::new contract)
//          reply_to(call): the reply keeps ITS OWN fresh serial (different from the call's), and records the call's
//          serial as reply_serial -- a reply never inherits the serial of the message it answers
// @unit C15.builder.reply_has_fresh_serial props=C15 kind=complete fn=zbus::message::builder::Builder::new,zbus::message::builder::Builder::reply_to timeout=1200
#[cfg(not(verif_skip_c15_builder_reply_has_fresh_serial__complete))]
#[cfg(kani)]
#[kani::proof]
#[kani::stub(alloc::fmt::format, stub_format)]
#[kani::unwind(3)]
fn c15_builder_reply_has_fresh_serial__complete() {
    // (the counter starts from its initial value here; that `PrimaryHeader::new` behaves per contract from EVERY counter
    //  state is unit C15.primary_header_new -- this unit is about which header a built message ends up with)
    // the call that is being answered (its serial is whatever it drew)
    let call = ManuallyDrop::new(Header::new(PH::new(Type::MethodCall, 0), Fields::new()));
    let call_serial = call.primary().serial_num().get();
    let is_err: bool = kani::any();
    let b = ManuallyDrop::new(Builder::new(if is_err { Type::Error } else { Type::MethodReturn }));
    let fresh = b.header.primary().serial_num().get();
    obl!("C15.builder.new_draws_a_nonzero_serial", fresh != 0);
    obl!("C15.builder.new_serial_differs_from_previous_message", fresh != call_serial);
    let b2 = ManuallyDrop::into_inner(b).reply_to(&call);
    match &b2 {
        Ok(rb) => {
            obl!("C15.builder.reply_keeps_its_own_fresh_serial", rb.header.primary().serial_num().get() == fresh);
            obl!("C15.builder.reply_serial_field_is_the_calls_serial",
                 rb.header.reply_serial().map(|s| s.get()) == Some(call_serial));
        }
        Err(_) => { obl!("C15.builder.reply_keeps_its_own_fresh_serial", false); }
    }
    kani::cover!(is_err, "cover.error_reply");
    core::mem::forget(b2);
}

#[cfg(all(kani, test))]
mod playback {
    use super::*;
    include!("/verif/.build/playback/zbus__message__builder.rs");
}
