// Contracts for zbus/src/message/header.rs (child module: sees SERIAL_NUM and the private fields)
#![allow(unused_imports, dead_code)]
use super::*;
use serde::de::IntoDeserializer;
include!("/verif/harness/common.rs");

#[cfg(kani)]
fn any_msg_type() -> Type {
    let k: u8 = kani::any();
    kani::assume(k < 4);
    match k { 0 => Type::MethodCall, 1 => Type::MethodReturn, 2 => Type::Error, _ => Type::Signal }
}

// ---- contract: PrimaryHeader::new  vs the process-wide ticket counter SERIAL_NUM ----------------
// requires  SERIAL_NUM = c   (any u32: every reachable counter state)
// ensures   serial != 0
//           serial = c if c != 0 else 1          (the call consumes one ticket, two iff the first is 0)
//           SERIAL_NUM' = serial + 1 (mod 2^32)  (so the next call draws a strictly later ticket)
//           frame: the other header fields are exactly the arguments / constants
// @unit C15.primary_header_new props=C15 kind=complete fn=zbus::message::header::PrimaryHeader::new timeout=600
#[cfg(not(verif_skip_c15_primary_header_new__complete))]
#[cfg(kani)]
#[kani::proof]
fn c15_primary_header_new__complete() {
    let c: u32 = kani::any();
    let t = any_msg_type();
    let body_len: u32 = kani::any();
    SERIAL_NUM.store(c, Relaxed);
    let h = PrimaryHeader::new(t, body_len);
    let s = h.serial_num().get();
    obl!("C15.primary_header_new.nonzero", s != 0);
    obl!("C15.primary_header_new.ticket", s == if c != 0 { c } else { 1 });
    obl!("C15.primary_header_new.counter_advanced", SERIAL_NUM.load(Relaxed) == s.wrapping_add(1));
    obl!("C15.primary_header_new.frame", h.body_len() == body_len && h.msg_type() == t
        && h.flags().is_empty() && h.protocol_version() == 1 && h.endian_sig() == NATIVE_ENDIAN_SIG);
    kani::cover!(c == 0, "cover.wrap_ticket_zero");
    kani::cover!(c == u32::MAX, "cover.last_ticket");
}

// Step relation used by the no-repeat lemma (DESIGN §4 C15): from ANY counter state two consecutive
// calls return s1 and s2 with s2 = s1 + 1, except across the wrap where s1 = u32::MAX and s2 = 1.
// Hence serials of consecutive calls are strictly increasing until the counter wraps.
// @unit C15.consecutive_calls props=C15 kind=complete fn=zbus::message::header::PrimaryHeader::new timeout=600
#[cfg(not(verif_skip_c15_consecutive_calls__complete))]
#[cfg(kani)]
#[kani::proof]
fn c15_consecutive_calls__complete() {
    let c: u32 = kani::any();
    SERIAL_NUM.store(c, Relaxed);
    let s1 = PrimaryHeader::new(Type::MethodCall, 0).serial_num().get();
    let s2 = PrimaryHeader::new(Type::Signal, 0).serial_num().get();
    obl!("C15.consecutive_calls.distinct", s1 != s2);
    obl!("C15.consecutive_calls.successor", s2 == s1.wrapping_add(1) || (s1 == u32::MAX && s2 == 1));
    kani::cover!(s1 == u32::MAX, "cover.wrap");
}

// ---- contract (C15, concurrency clause): the per-call contract is stable under INTERFERENCE ------------------
// Kani executes one thread.  Other threads are modelled rely/guarantee style: every atomic operation on SERIAL_NUM
// (fetch_add / load / store / swap / compare_exchange / fetch_update are replaced by instrumented stubs that perform
// the same single atomic step) may be preceded by up to two COMPLETE foreign calls of PrimaryHeader::new, each acting
// per the sequential contract proved above (draw the counter value, skip 0, leave counter = serial + 1); the serials
// they hand out are recorded in ghost state.
// ensures  the serial returned by THIS call differs from every serial handed out to a foreign call that ran between
//          any two atomic steps of this call  (so a read-modify-write split into load + store is caught: a foreign
//          call between the load and the store draws the same ticket)
static mut FOREIGN_TAKEN: [u32; 8] = [0; 8];
static mut FOREIGN_N: usize = 0;
fn interfere(a: &std::sync::atomic::AtomicU32) {
    let k: u8 = kani::any();
    kani::assume(k <= 2);
    let mut j = 0u8;
    while j < k {
        unsafe {
            if FOREIGN_N < 8 {
                let p = a.as_ptr();
                let c = *p;
                let s = if c != 0 { c } else { 1 };
                *p = s.wrapping_add(1);
                FOREIGN_TAKEN[FOREIGN_N] = s;
                FOREIGN_N += 1;
            }
        }
        j += 1;
    }
}
fn stub_fetch_add(a: &std::sync::atomic::AtomicU32, v: u32, _o: std::sync::atomic::Ordering) -> u32 {
    interfere(a);
    unsafe { let p = a.as_ptr(); let old = *p; *p = old.wrapping_add(v); old }
}
fn stub_load(a: &std::sync::atomic::AtomicU32, _o: std::sync::atomic::Ordering) -> u32 {
    interfere(a);
    unsafe { *a.as_ptr() }
}
fn stub_store(a: &std::sync::atomic::AtomicU32, v: u32, _o: std::sync::atomic::Ordering) {
    interfere(a);
    unsafe { *a.as_ptr() = v }
}
fn stub_swap(a: &std::sync::atomic::AtomicU32, v: u32, _o: std::sync::atomic::Ordering) -> u32 {
    interfere(a);
    unsafe { let p = a.as_ptr(); let old = *p; *p = v; old }
}
fn stub_compare_exchange(a: &std::sync::atomic::AtomicU32, cur: u32, new: u32, _s: std::sync::atomic::Ordering,
                         _f: std::sync::atomic::Ordering) -> core::result::Result<u32, u32> {
    interfere(a);
    unsafe { let p = a.as_ptr(); let old = *p; if old == cur { *p = new; Ok(old) } else { Err(old) } }
}
// @unit C15.interference props=C15 kind=bounded bound=up-to-2-foreign-calls-before-each-atomic-step fn=zbus::message::header::PrimaryHeader::new timeout=1200
#[cfg(not(verif_skip_c15_interference__f2))]
#[cfg(kani)]
#[kani::proof]
#[kani::stub(std::sync::atomic::Atomic::<u32>::fetch_add, stub_fetch_add)]
#[kani::stub(std::sync::atomic::Atomic::<u32>::load, stub_load)]
#[kani::stub(std::sync::atomic::Atomic::<u32>::store, stub_store)]
#[kani::stub(std::sync::atomic::Atomic::<u32>::swap, stub_swap)]
#[kani::stub(std::sync::atomic::Atomic::<u32>::compare_exchange, stub_compare_exchange)]
#[kani::stub(std::sync::atomic::Atomic::<u32>::compare_exchange_weak, stub_compare_exchange)]
#[kani::unwind(4)]
fn c15_interference__f2() {
    let c: u32 = kani::any();
    unsafe { *SERIAL_NUM.as_ptr() = c; FOREIGN_N = 0; }
    let s = PrimaryHeader::new(Type::MethodCall, 0).serial_num().get();
    obl!("C15.interference.nonzero", s != 0);
    let n = unsafe { FOREIGN_N };
    let i: usize = kani::any();
    kani::assume(i < 8);
    if i < n {
        obl!("C15.interference.serial_not_handed_out_to_a_concurrent_call", unsafe { FOREIGN_TAKEN[i] } != s);
    }
    kani::cover!(n >= 3, "cover.three_foreign_calls");
    kani::cover!(n >= 1 && c == u32::MAX, "cover.interference_at_wrap");
}

// @unit CANARY.zbus props=CANARY kind=complete expect=fail timeout=600
#[cfg(not(verif_skip_canary_zbus_must_fail))]
#[cfg(kani)]
#[kani::proof]
fn canary_zbus_must_fail() {
    let c: u32 = kani::any();
    SERIAL_NUM.store(c, Relaxed);
    let s = PrimaryHeader::new(Type::Signal, 0).serial_num().get();
    obl!("C00.canary.deliberately_false", s != 77);
}

// ---- C13: decode acceptance of the primary-header enumerations over ALL 256 byte values ---------
// The generated Deserialize impls are driven with serde's own value deserializers (u8 -> U8Deserializer,
// [u32; 6] -> SeqDeserializer), so the code executed is the derive output that parses real messages.
type VErr = serde::de::value::Error;

// contract deserialize_flags(b):  ensures Ok(flags) for EVERY byte, flags.bits() = b & 0b111
// (known bits preserved exactly, unknown bits ignored -- never a parse error)
// @unit C13.flags_decode props=C13 kind=complete fn=zbus::message::header::deserialize_flags timeout=600
#[cfg(not(verif_skip_c13_flags_decode__complete))]
#[cfg(kani)]
#[kani::proof]
#[kani::stub(alloc::fmt::format, stub_format)]
#[kani::unwind(10)]
fn c13_flags_decode__complete() {
    let b: u8 = kani::any();
    let r: Result<BitFlags<Flags>, VErr> = deserialize_flags(b.into_deserializer());
    obl!("C13.flags_decode.unknown_bits_ignored", r.is_ok());
    if let Ok(f) = &r {
        obl!("C13.flags_decode.known_bits_preserved", f.bits() == (b & 0x7));
    }
    kani::cover!((b & 0xf8) != 0, "cover.unknown_bits");
    core::mem::forget(r);
}

// known message types decode to their variants; an unknown type code must not be a parse error
// @unit C13.type_decode props=C13 kind=complete fn=<zbus::message::Type.as.serde::Deserialize>::deserialize timeout=600
#[cfg(not(verif_skip_c13_type_decode__complete))]
#[cfg(kani)]
#[kani::proof]
#[kani::stub(alloc::fmt::format, stub_format)]
#[kani::unwind(10)]
fn c13_type_decode__complete() {
    let b: u8 = kani::any();
    let r: Result<Type, VErr> = serde::Deserialize::deserialize(b.into_deserializer());
    match &r {
        Ok(t) => {
            obl!("C13.type_decode.known_codes_map", (*t as u8) == b && b >= 1 && b <= 4);
        }
        Err(_) => {
            obl!("C13.type_decode.known_never_rejected", !(b >= 1 && b <= 4));
            obl!("C13.type_decode.unknown_type_tolerated", false);
        }
    }
    kani::cover!(r.is_ok(), "cover.ok");
    core::mem::forget(r);
}

// field codes: 1..=9 map to their variants; every code >= 10 must decode (to the variant that
// FieldsVisitor::visit_seq ignores) -- never an error.  Code 0 is INVALID in the specification and is
// left unconstrained.
// @unit C13.field_code_decode props=C13 kind=complete fn=<zbus::message::FieldCode.as.serde::Deserialize>::deserialize timeout=600
#[cfg(not(verif_skip_c13_field_code_decode__complete))]
#[cfg(kani)]
#[kani::proof]
#[kani::stub(alloc::fmt::format, stub_format)]
#[kani::unwind(10)]
fn c13_field_code_decode__complete() {
    use crate::message::FieldCode;
    let b: u8 = kani::any();
    let r: Result<FieldCode, VErr> = serde::Deserialize::deserialize(b.into_deserializer());
    match &r {
        Ok(c) => {
            obl!("C13.field_code_decode.known_codes_map", !(b >= 1 && b <= 9) || (*c as u8) == b);
            obl!("C13.field_code_decode.unknown_not_aliased_to_known", (b >= 1 && b <= 9) || !((*c as u8) >= 1 && (*c as u8) <= 9));
        }
        Err(_) => {
            obl!("C13.field_code_decode.known_never_rejected", !(b >= 1 && b <= 9));
            obl!("C13.field_code_decode.unknown_code_tolerated", b == 0);
        }
    }
    kani::cover!(r.is_ok() && b >= 10, "cover.unknown_ok");
    core::mem::forget(r);
}

// contract <PrimaryHeader as Deserialize>::deserialize over the six header words (all values):
//   ensures  Ok(h) whenever endian ∈ {'B','l'}, type ∈ 1..=4, serial != 0 and the byte-sized words fit a byte
//            -- in particular for EVERY flags byte (unknown flag bits never make the header unparsable)
//            Ok(h) ==> h carries exactly the decoded words (flags masked to the known bits)
// @unit C13.primary_header_decode props=C13 kind=complete fn=<zbus::message::PrimaryHeader.as.serde::Deserialize>::deserialize,zbus::message::header::deserialize_flags timeout=1200
#[cfg(not(verif_skip_c13_primary_header_decode__complete))]
#[cfg(kani)]
#[kani::proof]
#[kani::stub(alloc::fmt::format, stub_format)]
#[kani::unwind(10)]
fn c13_primary_header_decode__complete() {
    let e: u8 = kani::any();
    let t: u8 = kani::any();
    let f: u8 = kani::any();
    let v: u8 = kani::any();
    let body_len: u32 = kani::any();
    let serial: u32 = kani::any();
    let words: [u32; 6] = [e as u32, t as u32, f as u32, v as u32, body_len, serial];
    let de: serde::de::value::SeqDeserializer<core::array::IntoIter<u32, 6>, VErr> =
        serde::de::value::SeqDeserializer::new(words.into_iter());
    let r: Result<PrimaryHeader, VErr> = serde::Deserialize::deserialize(de);
    let valid_rest = (e == b'B' || e == b'l') && (t >= 1 && t <= 4) && serial != 0;
    match &r {
        Ok(h) => {
            obl!("C13.primary_header_decode.fields_exact", h.endian_sig() as u8 == e && h.msg_type() as u8 == t
                && h.flags().bits() == (f & 7) && h.protocol_version() == v && h.body_len() == body_len
                && h.serial_num().get() == serial);
            // (the message-type word is deliberately unconstrained here: tolerating unknown types is allowed)
            obl!("C13.primary_header_decode.accepts_only_wellformed", (e == b'B' || e == b'l') && serial != 0);
        }
        Err(_) => {
            obl!("C13.primary_header_decode.any_flags_byte_accepted", !valid_rest);
        }
    }
    kani::cover!(r.is_ok() && (f & 0xf8) != 0, "cover.ok_with_unknown_flags");
    kani::cover!(r.is_err(), "cover.err");
    core::mem::forget(r);
}

// ---- contract (C12): the entry points that index the first byte of a message ---------------------------------
// ensures  for the EMPTY buffer (and every buffer too short for the fixed header) the result is an error, never a
//          panic.  Complete in the lengths involved (0); longer buffers go through the serde-derived decoders, which
//          are out of CBMC's reach (DESIGN §3) and are covered by C03/C04's leaf contracts.
// The decoder callee is replaced by a stub that fails: whether an entry point rejects the empty buffer itself or
// hands it to the decoder is an implementation choice (the decoder's own behaviour on short buffers is C03/C04's
// bounded contract: Err(OutOfBounds), no panic); what the property needs is "an error, never a panic" on the way there.
static mut DECODER_REACHED: bool = false;
fn stub_read_from_data(_data: &serialized::Data<'_, '_>) -> Result<(PrimaryHeader, u32), Error> {
    unsafe { DECODER_REACHED = true; }
    Err(Error::InvalidField)
}
// @unit C12.primary_header_read.empty props=C12 kind=complete fn=zbus::message::header::PrimaryHeader::read timeout=1200
#[cfg(not(verif_skip_c12_primary_header_read__empty))]
#[cfg(kani)]
#[kani::proof]
#[kani::stub(alloc::fmt::format, stub_format)]
#[kani::stub(PrimaryHeader::read_from_data, stub_read_from_data)]
#[kani::unwind(2)]
fn c12_primary_header_read__empty() {
    let buf: [u8; 0] = [];
    let r = PrimaryHeader::read(&buf[..]);
    let is_err = r.is_err();
    core::mem::forget(r);
    obl!("C12.primary_header_read.empty_buffer_is_an_error", is_err);
}

// @unit C12.from_raw_parts.empty props=C12 kind=complete fn=zbus::message::Message::from_raw_parts timeout=1200
#[cfg(not(verif_skip_c12_from_raw_parts__empty))]
#[cfg(kani)]
#[kani::proof]
#[kani::stub(alloc::fmt::format, stub_format)]
#[kani::stub(PrimaryHeader::read_from_data, stub_read_from_data)]
#[kani::unwind(2)]
fn c12_from_raw_parts__empty() {
    let big: bool = kani::any();
    let ctx = Context::new_dbus(if big { Endian::Big } else { Endian::Little }, 0);
    static EMPTY: [u8; 0] = [];
    let data = core::mem::ManuallyDrop::new(serialized::Data::new(&EMPTY[..], ctx));
    let d2 = unsafe { core::ptr::read(&*data) };
    let r = crate::message::Message::from_raw_parts(d2, 0);
    let is_err = r.is_err();
    core::mem::forget(r);
    obl!("C12.from_raw_parts.empty_buffer_is_an_error", is_err);
}

// ---- contract (C12): Message::body() --------------------------------------------------------------------------
// Representation invariant of Message established by from_raw_parts (after fix 1105b634): body_offset <= bytes.len().
// requires  that invariant; ANY declared body length in the primary header (it is peer-supplied and never checked
//           against the buffer), any buffer of <= 16 bytes
// ensures   body() does not panic and yields exactly the bytes from body_offset to the end of the buffer
// @unit C12.body.slice props=C12 kind=bounded bound=buffer<=16 fn=zbus::message::Message::body timeout=1800
#[cfg(not(verif_skip_c12_body_slice__n16))]
#[cfg(kani)]
#[kani::proof]
#[kani::stub(alloc::fmt::format, stub_format)]
#[kani::unwind(3)]
fn c12_body_slice__n16() {
    static BUF: [u8; 16] = [0x5a; 16];
    let len: usize = kani::any();
    kani::assume(len <= 16);
    let body_offset: usize = kani::any();
    kani::assume(body_offset <= len);
    let body_len: u32 = kani::any();
    let ctx = Context::new_dbus(Endian::Little, 0);
    let data = serialized::Data::new(&BUF[..len], ctx);
    let msg = core::mem::ManuallyDrop::new(crate::message::Message {
        inner: std::sync::Arc::new(crate::message::Inner {
            primary_header: PrimaryHeader::new(Type::Signal, body_len),
            quick_fields: std::sync::OnceLock::new(),
            bytes: data,
            body_offset,
            recv_seq: Default::default(),
        }),
    });
    let body = core::mem::ManuallyDrop::new(msg.body());
    obl!("C12.body.slice.is_the_rest_of_the_buffer", body.data().len() == len - body_offset);
    kani::cover!(body_offset == len && body_len > 0, "cover.declared_body_longer_than_buffer");
}

#[cfg(all(kani, test))]
mod playback {
    use super::*;
    include!("/verif/.build/playback/zbus__message__header.rs");
}
