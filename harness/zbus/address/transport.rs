// Contracts for zbus/src/address/transport/mod.rs: the percent codec of D-Bus server addresses
// (child module: sees the private `decode_hex`, `decode_percents`, `encode_percents`)
#![allow(unused_imports, dead_code)]
use super::*;
include!("/verif/harness/common.rs");

// ---- spec (D-Bus specification, "Server Addresses"): the set of optionally-escaped bytes is
//      [-0-9A-Za-z_/.\*]; every other byte must be written %XX (two hex digits); to unescape, every %XX is
//      replaced by the byte and every other character must be an optionally-escaped byte.
fn spec_optionally_escaped(b: u8) -> bool {
    matches!(b, b'-' | b'0'..=b'9' | b'A'..=b'Z' | b'a'..=b'z' | b'_' | b'/' | b'.' | b'\\' | b'*')
}
fn spec_hex_val(b: u8) -> Option<u8> {
    match b {
        b'0'..=b'9' => Some(b - b'0'),
        b'a'..=b'f' => Some(b - b'a' + 10),
        b'A'..=b'F' => Some(b - b'A' + 10),
        _ => None,
    }
}
/// spec decoder over a fixed window: returns (ok, out, out_len).  Loop bounded by N.
fn spec_decode<const N: usize>(s: &[u8; N], len: usize) -> (bool, [u8; N], usize) {
    let mut out = [0u8; N];
    let mut n = 0usize;
    let mut i = 0usize;
    while i < len {
        let c = s[i];
        if spec_optionally_escaped(c) {
            out[n] = c;
            n += 1;
            i += 1;
        } else if c == b'%' {
            if i + 2 >= len { return (false, out, n); } // incomplete escape
            match (spec_hex_val(s[i + 1]), spec_hex_val(s[i + 2])) {
                (Some(h), Some(l)) => { out[n] = (h << 4) | l; n += 1; i += 3; }
                _ => return (false, out, n),
            }
        } else {
            return (false, out, n);
        }
    }
    (true, out, n)
}

// ---- contract: decode_hex ------------------------------------------------------------------------------------
// ensures for EVERY char c: Ok(v) <=> c is an ASCII hex digit, and then v is its value (0..=15)
// @unit C23.decode_hex props=C23 kind=complete fn=zbus::address::transport::decode_hex timeout=600
#[cfg(not(verif_skip_c23_decode_hex__complete))]
#[cfg(kani)]
#[kani::proof]
#[kani::stub(alloc::fmt::format, stub_format)]
#[kani::unwind(2)]
fn c23_decode_hex__complete() {
    let c: char = kani::any();
    let r = decode_hex(c);
    let want = if (c as u32) < 128 { spec_hex_val(c as u32 as u8) } else { None };
    let got = match &r { Ok(v) => Some(*v), Err(_) => None };
    core::mem::forget(r);
    obl!("C23.decode_hex.ok_iff_hex_digit", got.is_some() == want.is_some());
    obl!("C23.decode_hex.value", got == want);
    kani::cover!(got == Some(15), "cover.f");
    kani::cover!(got.is_none() && (c as u32) > 0xffff, "cover.non_bmp_rejected");
}

// ---- contract: decode_percents -------------------------------------------------------------------------------
// requires value is an ASCII string of length <= N (bounded)
// ensures  Ok(v) <=> the spec decoder accepts ;  Ok(v) ==> v = spec decoding (length and every byte)
macro_rules! decode_percents_unit {
    ($name:ident, $n:expr, $unw:expr, $o_iff:literal, $o_len:literal, $o_bytes:literal) => {
        #[cfg(kani)]
        #[kani::proof]
        #[kani::stub(alloc::fmt::format, stub_format)]
        #[kani::unwind($unw)]
        fn $name() {
            let s: [u8; $n] = kani::any();
            let len: usize = kani::any();
            kani::assume(len <= $n);
            let mut k = 0;
            while k < $n { kani::assume(s[k] < 0x80); k += 1; } // ASCII: a valid &str
            let text: &str = unsafe { core::str::from_utf8_unchecked(&s[..len]) };
            let (want_ok, want, want_len) = spec_decode::<$n>(&s, len);
            let r = decode_percents(text);
            let got_ok = r.is_ok();
            obl!($o_iff, got_ok == want_ok);
            if let Ok(v) = &r {
                obl!($o_len, v.len() == want_len);
                let i: usize = kani::any();
                kani::assume(i < $n);
                if i < v.len() && i < want_len {
                    obl!($o_bytes, v[i] == want[i]);
                }
            }
            kani::cover!(got_ok && len == $n && want_len + 2 == len, "cover.one_escape");
            kani::cover!(!got_ok, "cover.rejected");
            core::mem::forget(r);
        }
    };
}
// @unit C23.decode_percents.n3 props=C23 kind=bounded bound=ASCII,len<=3 fn=zbus::address::transport::decode_percents timeout=1800
#[cfg(not(verif_skip_c23_decode_percents__n3))]
decode_percents_unit!(c23_decode_percents__n3, 3, 5, "C23.decode_percents.n3.ok_iff_spec_accepts", "C23.decode_percents.n3.length", "C23.decode_percents.n3.bytes");
// @unit C23.decode_percents.n5 props=C23 kind=bounded bound=ASCII,len<=5 tier=thorough fn=zbus::address::transport::decode_percents timeout=3600
#[cfg(not(verif_skip_c23_decode_percents__n5))]
decode_percents_unit!(c23_decode_percents__n5, 5, 7, "C23.decode_percents.n5.ok_iff_spec_accepts", "C23.decode_percents.n5.length", "C23.decode_percents.n5.bytes");

// ---- contract: encode_percents (driven through core::fmt::write into a fixed sink; no String) ----------------
// requires value any byte string of length <= N (bounded; ALL byte values)
// ensures  Ok ; the output consists of optionally-escaped bytes and %xx triplets only ;
//          spec_decode(output) = value   (so decode_percents(encode_percents(v)) = v by the contract above)
struct Sink<const M: usize> { buf: [u8; M], n: usize, overflow: bool }
impl<const M: usize> core::fmt::Write for Sink<M> {
    fn write_str(&mut self, s: &str) -> core::fmt::Result {
        let b = s.as_bytes();
        let mut i = 0;
        while i < b.len() {
            if self.n < M { self.buf[self.n] = b[i]; self.n += 1; } else { self.overflow = true; }
            i += 1;
        }
        Ok(())
    }
}
struct Enc<'a>(&'a [u8]);
impl<'a> Display for Enc<'a> {
    fn fmt(&self, f: &mut Formatter<'_>) -> std::fmt::Result { encode_percents(f, self.0) }
}

macro_rules! encode_percents_unit {
    ($name:ident, $n:expr, $m:expr, $unw:expr, $o_ok:literal, $o_len:literal, $o_rt:literal) => {
        #[cfg(kani)]
        #[kani::proof]
        #[kani::stub(alloc::fmt::format, stub_format)]
        #[kani::unwind($unw)]
        fn $name() {
            let v: [u8; $n] = kani::any();
            let len: usize = kani::any();
            kani::assume(len <= $n);
            let mut sink = Sink::<$m> { buf: [0u8; $m], n: 0, overflow: false };
            let r = core::fmt::write(&mut sink, format_args!("{}", Enc(&v[..len])));
            obl!($o_ok, r.is_ok() && !sink.overflow);
            let (ok, out, out_len) = spec_decode::<$m>(&sink.buf, sink.n);
            obl!($o_len, ok && out_len == len);
            let i: usize = kani::any();
            kani::assume(i < $n);
            if i < len && ok {
                obl!($o_rt, out[i] == v[i]);
            }
            kani::cover!(sink.n == 3 * $n, "cover.all_escaped");
            kani::cover!(sink.n == $n && len == $n, "cover.none_escaped");
        }
    };
}
// @unit C23.encode_percents.n2 props=C23 kind=bounded bound=all-bytes,len<=2 fn=zbus::address::transport::encode_percents timeout=1800
#[cfg(not(verif_skip_c23_encode_percents__n2))]
encode_percents_unit!(c23_encode_percents__n2, 2, 6, 8, "C23.encode_percents.n2.ok", "C23.encode_percents.n2.output_is_valid_escaping_of_same_length", "C23.encode_percents.n2.spec_decode_of_output_is_input");

#[cfg(all(kani, test))]
mod playback {
    use super::*;
    include!("/verif/.build/playback/zbus__address__transport.rs");
}
