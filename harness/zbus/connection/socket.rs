// Contracts for zbus/src/connection/socket/mod.rs: the framing kernel `ReadHalf::receive_message`
// (child module of `zbus::connection::socket`).
//
// `receive_message` is the provided async method that turns the byte stream into messages.  It is executed here
// for real: a harness-local `ReadHalf` implementation (`MockRead`) overrides only `recvmsg` and delivers a fixed
// symbolic byte stream in chunks of SYMBOLIC size (>= 1, at most what the caller asked for); its future is always
// ready, so one poll with a no-op waker runs the whole method.  "Every way the stream is split across reads" is thus
// an INPUT quantifier (the chunk sizes), not a schedule.
//
// Callees replaced by contract stubs (both are serde-derived decoders through serialized::Data: out of CBMC's reach,
// DESIGN §3):
//   * PrimaryHeader::read   -- exact functional stub of the fixed header layout (D-Bus specification, "Message
//     Format"): byte 0 endianness flag ('l' / 'B', anything else is an error), bytes 4..8 body length, bytes 12..16
//     length of the header-field array, both in the message's byte order.  ASSUMED contract of the real decoder.
//   * Message::from_raw_parts -- records the bytes and the sequence number it is handed (ghost state) and fails;
//     what the connection would parse is exactly that buffer.
#![allow(unused_imports, dead_code, unused_variables, unused_mut)]
use super::*;
use crate::message::{header::EndianSig, PrimaryHeader as PH, Type as MsgType};
use core::future::Future;
use core::pin::Pin;
use core::task::{Context as TaskCx, Poll, Waker};
include!("/verif/harness/common.rs");

const STREAM: usize = 24;

#[derive(Debug)]
struct MockRead {
    data: [u8; STREAM],
    len: usize,
    pos: usize,
    calls: usize,
}

#[async_trait::async_trait]
impl ReadHalf for MockRead {
    async fn recvmsg(&mut self, buf: &mut [u8]) -> RecvmsgResult {
        self.calls += 1;
        let remaining = self.len - self.pos;
        let max = if buf.len() < remaining { buf.len() } else { remaining };
        let n: usize = kani::any();
        kani::assume(n <= max && (n >= 1 || max == 0)); // a read returns at least one byte unless the stream is at EOF
        // bound on the number of reads per call (tractability): from the 3rd read on the socket delivers all that is asked for
        kani::assume(self.calls < 3 || n == max);
        buf[..n].copy_from_slice(&self.data[self.pos..self.pos + n]);
        self.pos += n;
        Ok((n, Vec::new()))
    }
    async fn peer_credentials(&mut self) -> io::Result<ConnectionCredentials> { unimplemented!() }
}

fn spec_u32_at(b: &[u8], off: usize, big: bool) -> u32 {
    let a = [b[off], b[off + 1], b[off + 2], b[off + 3]];
    if big { u32::from_be_bytes(a) } else { u32::from_le_bytes(a) }
}

fn stub_primary_header_read(buf: &[u8]) -> core::result::Result<(PH, u32), crate::Error> {
    assert!(buf.len() >= MIN_MESSAGE_SIZE, "C14.receive_message.header_parsed_only_when_16_bytes_present");
    let big = match buf[0] { b'B' => true, b'l' => false, _ => return Err(crate::Error::IncorrectEndian) };
    let body_len = spec_u32_at(buf, 4, big);
    let fields_len = spec_u32_at(buf, 12, big);
    let mut h = PH::new(MsgType::Signal, body_len);
    h.set_endian_sig(if big { EndianSig::Big } else { EndianSig::Little });
    Ok((h, fields_len))
}

static mut GOT: [u8; STREAM] = [0; STREAM];
static mut GOT_LEN: usize = usize::MAX;
static mut GOT_SEQ: u64 = 0;
fn stub_from_raw_parts(bytes: serialized::Data<'static, 'static>, recv_seq: u64) -> crate::Result<Message> {
    unsafe {
        let b = bytes.bytes();
        GOT_LEN = b.len();
        GOT_SEQ = recv_seq;
        let mut i = 0;
        while i < b.len() && i < STREAM { GOT[i] = b[i]; i += 1; }
    }
    core::mem::forget(bytes);
    Err(crate::Error::InvalidField)
}

// ---- contract: receive_message(seq, already_received_bytes = P, no fds) over a stream S --------------------------
// requires  S = the bytes still to come from the socket, P = bytes already read during the handshake (|P| + |S| <= 24)
// let hdr = first 16 bytes of P ++ S ; total = 16 + fields_len + pad8 + body_len  (lengths in the message's byte order)
// ensures   * fewer than 16 bytes in P ++ S, or the stream ends before `total` bytes  ==> Err, no message
//           * invalid endianness flag                                            ==> Err
//           * otherwise the parser is handed EXACTLY (P ++ S)[0 .. total] (byte-identical, right length) with the
//             given sequence number; exactly max(0, total - |P|) bytes were taken from the socket (never a byte of
//             the next message); the unconsumed tail of P stays in `already_received_bytes` in order
// @unit C14.receive_message.framing props=C14 kind=bounded bound=stream<=24-bytes,any-split-into-at-most-3-reads-per-phase fn=zbus::connection::socket::ReadHalf::receive_message timeout=3600
#[cfg(not(verif_skip_c14_receive_message__s40))]
#[cfg(kani)]
#[kani::proof]
#[kani::stub(alloc::fmt::format, stub_format)]
#[kani::stub(PrimaryHeader::read, stub_primary_header_read)]
#[kani::stub(Message::from_raw_parts, stub_from_raw_parts)]
#[kani::unwind(26)]
fn c14_receive_message__s40() {
    let all: [u8; STREAM] = kani::any();          // P ++ S
    let total_avail: usize = kani::any();
    kani::assume(total_avail <= STREAM);
    let plen: usize = kani::any();                // |P|
    kani::assume(plen <= total_avail);
    // keep the declared lengths small so that a complete message fits the window (larger ones are the EOF case)
    let mut already: Vec<u8> = Vec::with_capacity(STREAM);
    let mut i = 0;
    while i < plen { already.push(all[i]); i += 1; }
    let mut mock = MockRead { data: [0; STREAM], len: total_avail - plen, pos: 0, calls: 0 };
    let mut j = 0;
    while j < total_avail - plen { mock.data[j] = all[plen + j]; j += 1; }
    let mut fds: Vec<OwnedFd> = Vec::new();
    let seq: u64 = kani::any();
    unsafe { GOT_LEN = usize::MAX; }

    let r = {
        let mut fut = mock.receive_message(seq, &mut already, &mut fds);
        let waker = Waker::noop();
        let mut cx = TaskCx::from_waker(&waker);
        match fut.as_mut().poll(&mut cx) { Poll::Ready(r) => Some(r), Poll::Pending => None }
    };
    obl!("C14.receive_message.completes_without_waiting_when_reads_are_ready", r.is_some());
    let r = r.unwrap();
    let is_err = r.is_err();
    core::mem::forget(r);

    let big = all[0] == b'B';
    let endian_ok = total_avail >= 1 && (all[0] == b'B' || all[0] == b'l');
    if total_avail < 16 {
        obl!("C14.receive_message.short_stream_is_an_error", is_err && unsafe { GOT_LEN } == usize::MAX);
    } else if !endian_ok {
        obl!("C14.receive_message.bad_endian_flag_is_an_error", is_err && unsafe { GOT_LEN } == usize::MAX);
    } else {
        let fields_len = spec_u32_at(&all, 12, big) as usize;
        let body_len = spec_u32_at(&all, 4, big) as usize;
        kani::assume(fields_len <= 8 && body_len <= 8);
        let header_len = 16 + fields_len;
        let total = header_len + (8 - header_len % 8) % 8 + body_len;
        if total > total_avail {
            obl!("C14.receive_message.truncated_stream_is_an_error_not_a_message", is_err && unsafe { GOT_LEN } == usize::MAX);
        } else {
            obl!("C14.receive_message.parser_gets_exactly_total_len_bytes", unsafe { GOT_LEN } == total);
            obl!("C14.receive_message.sequence_number_passed_on", unsafe { GOT_SEQ } == seq);
            let k: usize = kani::any();
            kani::assume(k < STREAM);
            if k < total {
                obl!("C14.receive_message.message_bytes_identical_to_stream_prefix", unsafe { GOT[k] } == all[k]);
            }
            let from_socket = if total > plen { total - plen } else { 0 };
            obl!("C14.receive_message.never_reads_past_the_message", mock.pos == from_socket);
            let left = if plen > total { plen - total } else { 0 };
            obl!("C14.receive_message.leftover_handshake_bytes_kept", already.len() == left);
            if k < left {
                obl!("C14.receive_message.leftover_bytes_in_order", already[k] == all[total + k]);
            }
        }
        kani::cover!(total <= total_avail && plen > 16 && plen < total, "cover.message_split_between_leftover_and_socket");
        kani::cover!(total <= total_avail && plen == 0 && mock.calls >= 3, "cover.three_reads");
        kani::cover!(total <= total_avail && plen > total, "cover.leftover_contains_next_message_bytes");
    }
}

// the 128 MiB limit: a header that declares more is rejected WITHOUT reading the body
// @unit C14.receive_message.max_size props=C14 kind=bounded bound=16-byte-header,any-declared-lengths fn=zbus::connection::socket::ReadHalf::receive_message timeout=2400
#[cfg(not(verif_skip_c14_receive_message_max__h16))]
#[cfg(kani)]
#[kani::proof]
#[kani::stub(alloc::fmt::format, stub_format)]
#[kani::stub(PrimaryHeader::read, stub_primary_header_read)]
#[kani::stub(Message::from_raw_parts, stub_from_raw_parts)]
#[kani::unwind(18)]
fn c14_receive_message_max__h16() {
    let hdr: [u8; 16] = kani::any();
    kani::assume(hdr[0] == b'l' || hdr[0] == b'B');
    let big = hdr[0] == b'B';
    let fields_len = spec_u32_at(&hdr, 12, big) as usize;
    let body_len = spec_u32_at(&hdr, 4, big) as usize;
    let header_len = 16 + fields_len;
    let total = header_len + (8 - header_len % 8) % 8 + body_len;
    kani::assume(total > 128 * 1024 * 1024);
    let mut already: Vec<u8> = Vec::new();
    let mut mock = MockRead { data: [0; STREAM], len: STREAM, pos: 0, calls: 0 };
    let mut j = 0;
    while j < 16 { mock.data[j] = hdr[j]; j += 1; }
    let mut fds: Vec<OwnedFd> = Vec::new();
    unsafe { GOT_LEN = usize::MAX; }
    let r = {
        let mut fut = mock.receive_message(0, &mut already, &mut fds);
        let waker = Waker::noop();
        let mut cx = TaskCx::from_waker(&waker);
        match fut.as_mut().poll(&mut cx) { Poll::Ready(r) => Some(r), Poll::Pending => None }
    };
    let is_err = matches!(&r, Some(Err(_)));
    core::mem::forget(r);
    obl!("C14.receive_message.max_size.oversized_message_rejected", is_err && unsafe { GOT_LEN } == usize::MAX);
    obl!("C14.receive_message.max_size.nothing_read_beyond_the_header", mock.pos == 16);
    kani::cover!(fields_len > 128 * 1024 * 1024, "cover.huge_fields_len");
}

#[cfg(all(kani, test))]
mod playback {
    use super::*;
    include!("/verif/.build/playback/zbus__connection__socket.rs");
}
