// Contracts for zbus/src/guid.rs (child module: sees the private `validate_guid`)
#![allow(unused_imports, dead_code)]
use super::*;
include!("/verif/harness/common.rs");
include!("/verif/spec/names.rs");

// contract validate_guid(s): ensures is_ok() <=> s is exactly 32 hexadecimal digits.
// `uuid::Uuid::try_parse` is executed (not assumed).  A fully symbolic 32..45-byte string is out of CBMC's
// reach (measured > 15 min), so the unit is bounded: a valid 32-hex template in which THREE positions
// (chosen symbolically) hold ANY ASCII byte, and the length is 31, 32 or 33.
// @unit C10.guid.template3 props=C10 kind=bounded bound=32-hex-template,3-symbolic-bytes,len=31..33 fn=zbus::guid::validate_guid,uuid::Uuid::try_parse timeout=1800
#[cfg(not(verif_skip_c10_guid_template__b3))]
#[cfg(kani)]
#[kani::proof]
#[kani::unwind(40)]
fn c10_guid_template__b3() {
    let mut buf: [u8; 33] = *b"0123456789abcdefABCDEF0123456789a";
    let p1: usize = kani::any();
    let p2: usize = kani::any();
    let p3: usize = kani::any();
    kani::assume(p1 < 33 && p2 < 33 && p3 < 33);
    let b1: u8 = kani::any();
    let b2: u8 = kani::any();
    let b3: u8 = kani::any();
    kani::assume(b1 < 128 && b2 < 128 && b3 < 128);
    buf[p1] = b1;
    buf[p2] = b2;
    buf[p3] = b3;
    let len: usize = kani::any();
    kani::assume(len >= 31 && len <= 33);
    let s: &str = unsafe { core::str::from_utf8_unchecked(&buf[..len]) };
    let r = validate_guid(s);
    let got = r.is_ok();
    core::mem::forget(r);
    obl!("C10.guid.template3.accepts_iff_32_hex", got == spec_guid(s.as_bytes()));
    kani::cover!(got, "cover.accepted");
    kani::cover!(!got && len == 32, "cover.rejected_len32");
}

// The other textual UUID forms that a UUID parser accepts but "exactly 32 hexadecimal digits" does not.
// Concrete inputs (enumerated), run through the real validator and the public constructors.
// @unit C10.guid.other_forms props=C10 kind=instance bound=4-concrete-strings fn=zbus::guid::validate_guid,<zbus::Guid.as.TryFrom<&str>>::try_from,zbus::Guid::from_static_str timeout=1800
#[cfg(not(verif_skip_c10_guid_other_forms__instances))]
#[cfg(kani)]
#[kani::proof]
#[kani::unwind(50)]
fn c10_guid_other_forms__instances() {
    let k: u8 = kani::any();
    kani::assume(k < 5);
    let s: &'static str = match k {
        0 => "01234567-89ab-cdef-0123-456789abcdef",            // hyphenated, 36
        1 => "{01234567-89ab-cdef-0123-456789abcdef}",          // braced, 38
        2 => "urn:uuid:01234567-89ab-cdef-0123-456789abcdef",   // URN, 45
        3 => "0123456789abcdef0123456789abcde",                 // 31 hex digits
        _ => "0123456789ABCDEFabcdef0123456789",                // 32 hex digits, mixed case: valid
    };
    let want = spec_guid(s.as_bytes());
    let r = validate_guid(s);
    let got = r.is_ok();
    core::mem::forget(r);
    obl!("C10.guid.other_forms.validate_accepts_iff_32_hex", got == want);
    let r2 = Guid::try_from(s);
    obl!("C10.guid.other_forms.try_from_accepts_iff_32_hex", r2.is_ok() == want);
    core::mem::forget(r2);
    let r3 = Guid::from_static_str(s);
    obl!("C10.guid.other_forms.from_static_str_accepts_iff_32_hex", r3.is_ok() == want);
    core::mem::forget(r3);
    kani::cover!(want, "cover.valid_instance");
}

#[cfg(all(kani, test))]
mod playback {
    use super::*;
    include!("/verif/.build/playback/zbus__guid.rs");
}
