#!/usr/bin/env python3
"""
Runner for the contract checks of /verif  (see DESIGN.md §2.4).

  ./check <PROPERTY> [--tier quick|thorough] [--replay <file>] [--only <unit-substring>] [--list]

Exit codes:  0 every obligation discharged (or listed as a known finding)
             1 at least one obligation violated  (line: VIOLATION property=<id> replay=<path> [...])
             2 undecided (tool limit, timeout, harness defect, vacuous harness) -- never an alarm

A *unit* is one `#[kani::proof]` harness in /verif/harness/<crate>/**.rs preceded by an
annotation line
   // @unit <unit-id> props=C01,C03 kind=complete|bounded|instance [bound=..] fn=<path>[,<path>]
   //       [tier=thorough] [features=gvariant] [timeout=300] [stubs=<unit-id>,..] [nondet_stubs=yes]
   //       [expect=fail]
(continuation lines start with `// @+`).  A Verus unit is a python description in /verif/verus/units.py.
"""
import argparse, fcntl, glob, hashlib, json, os, re, resource, shlex, subprocess, sys, time

VERIF = os.path.dirname(os.path.dirname(os.path.abspath(__file__)))
REPO = os.environ.get("VERIF_REPO", "/repo")
BUILD = os.environ.get("VERIF_BUILD") or os.path.join(VERIF, ".build")  # VERIF_BUILD: build-phase aid (seed runs on a scratch copy)
HARNESS_DIR = os.path.join(VERIF, "harness")
KNOWN_FINDINGS = os.path.join(VERIF, "known_findings.txt")
NCPU = os.cpu_count() or 4

CRATE_DIRS = {"zvariant": "zvariant", "zvariant_utils": "zvariant_utils", "zbus_names": "zbus_names", "zbus": "zbus"}

TRUSTED_BASE = [
    "rustc + Kani 0.68 MIR->goto translation, CBMC 6.11 + CaDiCaL (bit-precise; machine arithmetic is NOT treated as mathematical)",
    "Verus 0.2026.09.13 + Z3 for units with backend=verus (usize fixed at 64 bit; lift rewrites listed per unit)",
    "spec functions in /verif/spec/*.rs are the oracle (written from the D-Bus / GVariant specifications)",
    "alloc::fmt::format replaced by a stub returning an empty String in every Kani harness (error text is not part of any property)",
    "termination is not verified by Kani; loops in complete units are bounded by constants and guarded by unwinding assertions",
]


# ------------------------------------------------------------------------------------------------
# unit discovery
# ------------------------------------------------------------------------------------------------
class Unit:
    def __init__(self, uid, attrs, harness, path, crate):
        self.id = uid
        self.attrs = attrs
        self.harness = harness
        self.path = path
        self.crate = crate
        self.props = attrs.get("props", uid.split(".")[0]).split(",")
        self.kind = attrs.get("kind", "bounded")
        self.bound = attrs.get("bound", "")
        self.fns = [f for f in attrs.get("fn", "").split(",") if f]
        self.tier = attrs.get("tier", "quick")
        self.features = attrs.get("features", "")
        self.timeout = int(attrs.get("timeout", "300"))
        self.stubs = [s for s in attrs.get("stubs", "").split(",") if s]
        self.nondet_stubs = attrs.get("nondet_stubs", "no") == "yes"
        self.expect_fail = attrs.get("expect", "") == "fail"
        self.backend = attrs.get("backend", "kani")

    def group(self):
        return (self.crate, self.features)


def unit_span_end(lines, j):
    """line index (0-based) of the fn / macro-invocation line -> 1-based number of the line that closes the item"""
    text = "\n".join(lines[j:])
    opens = [k for k in (text.find("{"), text.find("(")) if k >= 0]
    if not opens:
        return j + 1
    # a harness fn: `fn name() {` -> the first bracket is `(`; skip the parameter list, then match the body
    depth = 0
    k = 0
    seen_body = False
    is_macro = re.match(r"\s*[a-z_0-9]+!\(", lines[j]) is not None
    in_str = False
    while k < len(text):
        c = text[k]
        if in_str:
            if c == "\\":
                k += 1
            elif c == '"':
                in_str = False
        elif c == '"':
            in_str = True
        elif text.startswith("//", k):
            k = text.find("\n", k)
            if k < 0:
                break
            continue
        elif c in "({[":
            depth += 1
            if c == "{":
                seen_body = True
        elif c in ")}]":
            depth -= 1
            if depth == 0 and (seen_body or is_macro):
                return j + 1 + text.count("\n", 0, k)
        k += 1
    return len(lines)


def scan_units():
    units = []
    for path in sorted(glob.glob(os.path.join(HARNESS_DIR, "**", "*.rs"), recursive=True)):
        rel = os.path.relpath(path, HARNESS_DIR)
        crate = rel.split(os.sep)[0]
        if crate not in CRATE_DIRS:
            continue
        lines = open(path).read().split("\n")
        i = 0
        while i < len(lines):
            m = re.match(r"\s*// @unit\s+(\S+)\s*(.*)$", lines[i])
            if not m:
                i += 1
                continue
            uid, rest = m.group(1), m.group(2)
            i += 1
            while i < len(lines) and re.match(r"\s*// @\+", lines[i]):
                rest += " " + re.sub(r"^\s*// @\+", "", lines[i])
                i += 1
            attrs = {}
            for tok in rest.split():
                if "=" in tok:
                    k, v = tok.split("=", 1)
                    attrs[k] = v
            harness = None
            j = i
            while j < min(len(lines), i + 80):
                fm = re.match(r"\s*(?:pub(?:\(crate\))?\s+)?fn\s+([A-Za-z0-9_]+)\s*\(", lines[j])
                if not fm:  # harness generated by a macro: first argument is the harness name (possibly on the next line)
                    fm = re.match(r"\s*[a-z_0-9]+!\(\s*([a-z0-9_]+__[a-z0-9_]+)\s*,", lines[j] + " " + (lines[j + 1] if j + 1 < len(lines) else ""))
                if fm:
                    harness = fm.group(1)
                    break
                j += 1
            if harness is None:
                raise SystemExit(f"runner: @unit {uid} in {path}: no harness fn found")
            u = Unit(uid, attrs, harness, path, crate)
            u.span = (i, unit_span_end(lines, j))  # 1-based line numbers: annotation .. end of the harness item
            units.append(u)
    names = [u.harness for u in units]
    for a in names:
        for b in names:
            if a != b and a in b:
                raise SystemExit(f"runner: harness name {a} is a substring of {b}; rename (Kani --harness is a substring filter)")
    ids = [u.id for u in units]
    if len(set(ids)) != len(ids):
        dup = [x for x in ids if ids.count(x) > 1]
        raise SystemExit(f"runner: duplicate unit ids {sorted(set(dup))}")
    return units


# ------------------------------------------------------------------------------------------------
# Kani invocation and output parsing
# ------------------------------------------------------------------------------------------------
PLAYBACK = os.path.join(VERIF, ".build", "playback")  # the harness files include! these paths literally


def playback_include_path(harness_path):
    rel = os.path.relpath(harness_path, HARNESS_DIR)
    return os.path.join(PLAYBACK, rel.replace(os.sep, "__"))


def ensure_playback_files():
    os.makedirs(PLAYBACK, exist_ok=True)
    for path in glob.glob(os.path.join(HARNESS_DIR, "**", "*.rs"), recursive=True):
        p = playback_include_path(path)
        if not os.path.exists(p):
            open(p, "w").write("// playback tests are written here by the runner\n")


def limit_mem(gb):
    def f():
        try:
            resource.setrlimit(resource.RLIMIT_AS, (gb * 1024 ** 3, gb * 1024 ** 3))
        except Exception:
            pass
        os.setsid()
    return f


def kani_cmd(crate, features, harnesses, timeout_s, jobs, playback=False):
    # Kani refuses --concrete-playback together with -j > 1: phase 1 runs everything in parallel without
    # playback; phase 2 re-runs only the failing harnesses, one at a time, to obtain the counterexample.
    cmd = ["cargo", "kani", "-Z", "stubbing", "-Z", "unstable-options", "--harness-timeout", f"{timeout_s}s",
           "--target-dir", os.path.join(BUILD, "kani")]
    if playback:
        cmd += ["-Z", "concrete-playback", "--concrete-playback=print"]
    else:
        # -j needs terse output; the full per-check listing goes to <target>/result_output_dir/<harness>
        cmd += ["-j", str(jobs), "--output-format=terse", "--output-into-files"]
    if features:
        cmd += ["--features", features]
    for h in harnesses:
        cmd += ["--harness", h]
    return cmd


def harness_error_units(text, units):
    """Map rustc errors of a failed build to the units whose harness text they point into.
    returns (set of units, first error line) -- an error that points into no unit span cannot be isolated."""
    hit, unplaced = set(), []
    blocks = re.split(r"^(?=error(?:\[E\d+\])?: )", text, flags=re.M)
    for b in blocks:
        if not re.match(r"error(?:\[E\d+\])?: ", b) or b.startswith("error: could not compile") or b.startswith("error: aborting") \
                or b.startswith("error: Failed to execute cargo"):
            continue
        locs = []
        cur = None
        for line in b.split("\n"):
            m = re.match(r"\s*(?:-->|:::) (\S+?):(\d+):\d+", line)
            if m:
                cur = m.group(1)
                locs.append((cur, m.group(2)))
                continue
            m = re.match(r"\s*(\d+)\s*\|", line)
            if m and cur:
                locs.append((cur, m.group(1)))  # gutter line numbers: labelled spans, e.g. "in this macro invocation"
        placed = False
        for (path, ln) in locs:
            if "verif/harness" not in path:
                continue
            ap = os.path.normpath(os.path.join("/", path[path.index("verif/harness"):]))
            for u in units:
                if os.path.normpath(u.path) == ap and u.span[0] <= int(ln) <= u.span[1]:
                    hit.add(u)
                    placed = True
        if not placed:
            unplaced.append(b.split("\n")[0])
    return hit, unplaced


def run_group(crate, features, units, logdir, mem_gb, playback=False, skip=None):
    """Run all units of one (crate, features) group with one cargo-kani invocation per timeout class.

    Lost anchors: when the crate no longer compiles because a harness refers to an item whose name / signature
    changed in /repo, the units that the compile errors point into are switched off (`--cfg verif_skip_<harness>`,
    every unit carries `#[cfg(not(verif_skip_<harness>))]`) and the rest is run again, so that one lost anchor makes
    ONE unit undecided instead of the whole crate."""
    if skip is None and not playback:
        all_units = [u for u in scan_units() if u.crate == crate]
        skipped = {}
        for attempt in range(4):
            live = [u for u in units if u.id not in skipped]
            if not live:
                break
            res = run_group(crate, features, live, logdir, mem_gb, playback, skip=sorted(skipped.values()))
            missing = [u for u in live if res[u.id]["status"] == "MISSING" and res[u.id].get("build_errors")]
            if len(missing) != len(live):
                break
            text = open(res[live[0].id]["log"], errors="replace").read()
            bad, unplaced = harness_error_units(text, all_units)
            bad = {u for u in bad if u.id not in skipped}
            if not bad or unplaced:
                break
            for u in bad:
                skipped[u.id] = u.harness
        out = res
        for r_ in out.values():
            r_["skip"] = sorted(skipped.values())
        for u in units:
            if u.id in skipped:
                out[u.id] = {"status": "MISSING", "checks": [], "covers": [], "time": None, "playback": [], "raw": "",
                             "build_errors": ["lost anchor: this harness no longer compiles against /repo (item renamed or signature changed); unit switched off, other units still decided"],
                             "log": res[next(iter(res))]["log"] if res else "", "cmd": "", "group_wall_s": 0}
        return out
    results = {}
    # split by timeout class so that one slow unit does not inflate everybody's timeout
    classes = {}
    for u in units:
        classes.setdefault(u.timeout, []).append(u)
    for tmo, us in sorted(classes.items()):
        jobs = max(1, min(len(us), NCPU, int(os.environ.get("VERIF_JOBS", "12"))))
        cmd = kani_cmd(crate, features, [u.harness for u in us], tmo, jobs, playback)
        env = dict(os.environ)
        env["CARGO_NET_OFFLINE"] = "true"
        env.pop("RUSTFLAGS", None)
        if skip:
            env["RUSTFLAGS"] = " ".join(f"--cfg verif_skip_{h}" for h in skip)
        cwd = os.path.join(REPO, CRATE_DIRS[crate])
        tag = f"{crate}{'-' + features if features else ''}-t{tmo}{'-playback-' + us[0].harness if playback else ''}{'-skip' + str(len(skip)) if skip else ''}"
        logpath = os.path.join(logdir, tag + ".log")
        t0 = time.time()
        # global guard: build (<= 15 min) + ceil(n/jobs) waves of harness timeouts
        waves = -(-len(us) // jobs)
        hard = 900 + waves * (tmo + 30)
        resdir = os.path.join(BUILD, "kani", "result_output_dir")
        lock = open(os.path.join(BUILD, f"kani-{crate}-{features or 'default'}.lock"), "w")
        fcntl.flock(lock, fcntl.LOCK_EX)
        if os.path.isdir(resdir):
            for fn in os.listdir(resdir):
                if fn.split("::")[-1] in {u.harness for u in us}:
                    os.unlink(os.path.join(resdir, fn))
        with open(logpath, "w") as lf:
            lf.write("$ " + " ".join(shlex.quote(c) for c in cmd) + "\n")
            lf.flush()
            p = subprocess.Popen(cmd, cwd=cwd, env=env, stdout=lf, stderr=subprocess.STDOUT,
                                 preexec_fn=limit_mem(mem_gb))
            try:
                p.wait(timeout=hard)
            except subprocess.TimeoutExpired:
                try:
                    os.killpg(p.pid, 9)
                except Exception:
                    p.kill()
                p.wait()
        wall = time.time() - t0
        text = open(logpath, errors="replace").read()
        parsed = parse_kani_output(text)
        if not playback and os.path.isdir(resdir):
            for fn in os.listdir(resdir):
                h = fn.split("::")[-1]
                if h in {u.harness for u in us}:
                    body = open(os.path.join(resdir, fn), errors="replace").read()
                    full = parse_kani_output("Checking harness " + fn + "...\n" + body).get(h)
                    terse = parsed.get(h)
                    if terse and terse["status"] in ("TIMEOUT", "CRASH"):
                        continue
                    if full and full["checks"]:
                        if terse and terse["status"] not in ("UNKNOWN",) and full["status"] == "UNKNOWN":
                            full["status"] = terse["status"]
                        if terse and full.get("time") is None:
                            full["time"] = terse.get("time")
                        parsed[h] = full
        fcntl.flock(lock, fcntl.LOCK_UN)
        lock.close()
        for u in us:
            r = parsed.get(u.harness)
            if r is None:
                r = {"status": "MISSING", "checks": [], "covers": [], "time": None, "playback": [], "raw": ""}
                # compile error? report the first error lines
                em = re.findall(r"^error(?:\[E\d+\])?:.*$", text, re.M)
                r["build_errors"] = em[:5]
            r["log"] = logpath
            r["cmd"] = " ".join(shlex.quote(c) for c in cmd)
            r["group_wall_s"] = wall
            results[u.id] = r
    return results


CHECK_RE = re.compile(r"^Check (\d+): (.+)\n\s+- Status: (\w+)\n\s+- Description: \"(.*)\"\n(?:\s+- Location: (.*)\n)?", re.M)  # check names of generic trait impls contain spaces


def obl_desc(d):
    """Kani prints the message expression of assert!: a literal arrives as "\"..\"", a concat!(..) unevaluated."""
    d = d.strip()
    if d.startswith("concat!"):
        return "".join(re.findall(r'"([^"]*)"', d))
    if len(d) >= 2 and d[0] == '"' and d[-1] == '"':
        return d[1:-1]
    return d


def parse_body(full, body):
    name = full.split("::")[-1]
    checks = []
    for m in CHECK_RE.finditer(body):
        checks.append({"n": int(m.group(1)), "name": m.group(2), "status": m.group(3),
                       "desc": obl_desc(m.group(4)), "loc": (m.group(5) or "").strip()})
    status = "UNKNOWN"
    m = re.search(r"^VERIFICATION:- (\w+)", body, re.M)
    if m:
        status = m.group(1)
    if re.search(r"CBMC timed out|Harness timed out", body):
        status = "TIMEOUT"
    elif re.search(r"CBMC failed|out of memory|std::bad_alloc|SIGKILL|signal: 9|Out of memory", body) and status != "SUCCESSFUL":
        status = "CRASH"
    tm = re.search(r"^Verification Time: ([0-9.]+)s", body, re.M)
    covers = [c for c in checks if ".cover." in c["name"]]
    checks = [c for c in checks if ".cover." not in c["name"]]
    terse = {}
    m = re.search(r"\*\* (\d+) of (\d+) failed", body)
    if m:
        terse["failed"], terse["total"] = int(m.group(1)), int(m.group(2))
    m = re.search(r"\*\* (\d+) of (\d+) cover properties satisfied", body)
    if m:
        terse["covers_sat"], terse["covers_total"] = int(m.group(1)), int(m.group(2))
    playback = []
    for pm in re.finditer(r"Concrete playback unit test for `(\S+)`:\n```\n(.*?)\n```", body, re.S):
        code = pm.group(2)
        dm = re.search(r"/// Check for `(\w+)`: \"(.*)\"", code)
        nm = re.search(r"fn (kani_concrete_playback_\w+)\(", code)
        playback.append({"harness": pm.group(1), "kind": dm.group(1) if dm else "", "desc": obl_desc(dm.group(2)) if dm else "",
                         "test": nm.group(1) if nm else "", "code": code})
    return name, {"status": status, "checks": checks, "covers": covers, "terse": terse,
                  "time": float(tm.group(1)) if tm else None, "playback": playback,
                  "full_name": full, "raw_tail": body[-3000:]}


def parse_kani_output(text):
    """Returns {harness_last_segment: {...}}.  Handles the sequential format ("Checking harness X..." followed by
    its output) and the parallel terse format ("Thread N: Checking harness X..." / "Thread N: " + result block)."""
    out = {}
    if re.search(r"^Thread \d+: Checking harness", text, re.M):
        cur = {}
        blocks = []  # (full, [lines])
        active = None
        for line in text.split("\n"):
            m = re.match(r"^Thread (\d+): Checking harness (\S+?)\.\.\.\s*$", line)
            if m:
                cur[m.group(1)] = m.group(2)
                active = None
                continue
            m = re.match(r"^Thread (\d+):\s*$", line)
            if m:
                active = (cur.get(m.group(1), "?"), [])
                blocks.append(active)
                continue
            if line.startswith("Manual Harness Summary") or line.startswith("Complete - "):
                active = None
                continue
            if active is not None:
                active[1].append(line)
        for full, lines in blocks:
            name, r = parse_body(full, "\n".join(lines))
            out[name] = r
        return out
    parts = re.split(r"^Checking harness (\S+?)\.\.\.\s*$", text, flags=re.M)
    for k in range(1, len(parts), 2):
        name, r = parse_body(parts[k], parts[k + 1])
        out[name] = r
    return out


OBL_RE = re.compile(r"^\[?(C\d+\.[A-Za-z0-9_.:<>\-]+)\]?$")


def classify(unit, r):
    """Turn a parsed harness result into obligation verdicts.

    returns dict(obligations=[{id,status,...}], undecided=[reasons], n_checks=int)
    status in {discharged, violated, undecided}
    """
    obligations = {}
    undecided = []
    if r["status"] in ("MISSING", "TIMEOUT", "CRASH", "UNKNOWN") or not r["checks"]:
        why = r["status"]
        if r.get("build_errors"):
            why += " (build: " + " | ".join(r["build_errors"]) + ")"
        undecided.append(f"{unit.id}: no verdict from Kani: {why}")
        return {"obligations": [], "undecided": undecided, "n_checks": 0}

    unwind_fail = [c for c in r["checks"] if c["status"] == "FAILURE" and ("unwinding assertion" in c["desc"] or "recursion unwinding" in c["desc"])]
    if unwind_fail:
        c = unwind_fail[0]
        undecided.append(f"{unit.id}: unwinding assertion failed ({c['name']} @ {c['loc']}) -- bound too small, tool limit; all other checks are undetermined")
        return {"obligations": [], "undecided": undecided, "n_checks": len(r["checks"])}
    no_panic_id = f"{unit.id}.no_panic"
    obligations[no_panic_id] = {"id": no_panic_id, "status": "discharged", "failed_checks": [], "implicit": True}
    for c in r["checks"]:
        m = OBL_RE.match(c["desc"])
        st = c["status"]
        loc = c["loc"]
        in_verif = "verif/" in loc and "/repo/" not in loc
        if m:
            oid = m.group(1)
            o = obligations.setdefault(oid, {"id": oid, "status": "discharged", "failed_checks": []})
            if st == "FAILURE":
                o["status"] = "violated"
                o["failed_checks"].append(c)
            elif st in ("UNDETERMINED", "ERROR"):
                if o["status"] != "violated":
                    o["status"] = "undecided"
                undecided.append(f"{oid}: check status {st}")
            # SUCCESS / UNREACHABLE: fine (unreachable obligations are caught by covers)
            continue
        if st == "SUCCESS" or st == "UNREACHABLE":
            continue
        if "unwinding assertion" in c["desc"] or "recursion unwinding" in c["desc"]:
            undecided.append(f"{unit.id}: unwinding assertion failed ({c['name']}) -- bound too small, tool limit")
            continue
        if st in ("UNDETERMINED", "ERROR"):
            undecided.append(f"{unit.id}: check {c['name']} status {st}")
            continue
        if "is not currently supported by Kani" in c["desc"] or "unsupported" in c["desc"].lower():
            undecided.append(f"{unit.id}: unsupported construct reached: {c['desc'][:120]}")
            continue
        # FAILURE of an un-named check
        if in_verif:
            undecided.append(f"{unit.id}: harness defect: failed check inside /verif: {c['desc'][:100]} @ {loc}")
            continue
        o = obligations[no_panic_id]
        o["status"] = "violated"
        o["failed_checks"].append(c)
    # vacuity guards
    for c in r["covers"]:
        if c["status"] != "SATISFIED":
            undecided.append(f"{unit.id}: cover `{c['desc']}` {c['status']} (vacuity guard)")
    # safety net: the verifier's own verdict must agree with what was parsed out of its output
    if r["status"] == "FAILED" and not undecided and not any(o["status"] != "discharged" for o in obligations.values()) \
            and all(c["status"] == "SATISFIED" for c in r["covers"]):
        undecided.append(f"{unit.id}: Kani reports VERIFICATION FAILED but no failing check could be parsed from its output (parser defect) -- not counted as discharged")
    named = [o for o in obligations.values() if not o.get("implicit")]
    if not named and not unit.expect_fail and "C04" not in unit.props and "C12" not in unit.props:
        undecided.append(f"{unit.id}: harness states no named obligation")
    return {"obligations": list(obligations.values()), "undecided": undecided, "n_checks": len(r["checks"])}


# ------------------------------------------------------------------------------------------------
# native replay through `cargo kani playback`
# ------------------------------------------------------------------------------------------------
def native_replay(unit, test_code, test_name, logdir, skip=None):
    """Put Kani's concrete-playback test next to the harness and run it natively against /repo.
    returns (reproduced: bool|None, excerpt)"""
    ensure_playback_files()
    inc = playback_include_path(unit.path)
    old = open(inc).read()
    try:
        open(inc, "w").write(test_code + "\n")
        cmd = ["cargo", "kani", "playback", "-Z", "concrete-playback", "--lib"]
        if unit.features:
            cmd += ["--features", unit.features]
        cmd += ["--", test_name, "--exact" if False else "--nocapture"]
        env = dict(os.environ)
        env["CARGO_NET_OFFLINE"] = "true"
        env["CARGO_TARGET_DIR"] = os.path.join(BUILD, "kani-playback")
        env["RUST_BACKTRACE"] = "0"
        env.pop("RUSTFLAGS", None)
        if skip:
            env["RUSTFLAGS"] = " ".join(f"--cfg verif_skip_{h}" for h in skip)
        cwd = os.path.join(REPO, CRATE_DIRS[unit.crate])
        try:
            p = subprocess.run(cmd, cwd=cwd, env=env, stdout=subprocess.PIPE, stderr=subprocess.STDOUT, timeout=1800)
            text = p.stdout.decode(errors="replace")
        except subprocess.TimeoutExpired:
            return None, "native replay timed out"
        open(os.path.join(logdir, f"replay-{test_name}.log"), "w").write(text)
        m = re.search(r"test result: (\w+)\. (\d+) passed; (\d+) failed", text)
        if not m:
            return None, text[-1500:]
        if int(m.group(2)) + int(m.group(3)) == 0:
            return None, "playback test was not found by the test binary\n" + text[-800:]
        failed = int(m.group(3)) > 0
        pm = re.search(r"panicked at [^\n]*\n([^\n]*)", text)
        excerpt = (pm.group(0) if pm else "") or text[-600:]
        return failed, excerpt
    finally:
        open(inc, "w").write(old)


def decode_playback(code):
    vals = []
    cur_comment = None
    for line in code.split("\n"):
        line = line.strip()
        if line.startswith("// "):
            cur_comment = line[3:]
        m = re.match(r"vec!\[([0-9, ]*)\],?", line)
        if m:
            b = [int(x) for x in m.group(1).replace(" ", "").split(",") if x]
            vals.append({"bytes": b, "as": cur_comment})
            cur_comment = None
    return vals


# ------------------------------------------------------------------------------------------------
# known findings
# ------------------------------------------------------------------------------------------------
def load_known_findings():
    """lines:  finding: property=<id> obligation=<obl-id> <what fails>
               fixed: property=<id> <commit> <what failed>          (suppresses nothing)"""
    out = {}
    if not os.path.exists(KNOWN_FINDINGS):
        return out
    for line in open(KNOWN_FINDINGS):
        line = line.strip()
        if not line.startswith("finding:"):
            continue
        m = re.match(r"finding:\s+property=(\S+)\s+obligation=(\S+)\s+(.*)$", line)
        if m:
            out[m.group(2)] = {"property": m.group(1), "obligation": m.group(2), "what": m.group(3)}
    return out


# ------------------------------------------------------------------------------------------------
# assumption scan (mechanical)
# ------------------------------------------------------------------------------------------------
def scan_assumptions(paths):
    found = []
    pats = [r"kani::assume\(", r"#\[kani::stub\(", r"kani::any_where\(", r"external_body", r"assume_specification",
            r"\badmit\(\)", r"\bassume\(", r"#\[verifier::external"]
    for path in sorted(set(paths)):
        if not os.path.exists(path):
            continue
        for ln, line in enumerate(open(path, errors="replace"), 1):
            s = line.strip()
            if s.startswith("//"):
                continue
            for p in pats:
                if re.search(p, s):
                    found.append(f"{os.path.relpath(path, VERIF)}:{ln}: {s[:160]}")
                    break
    return found


# ------------------------------------------------------------------------------------------------
# main
# ------------------------------------------------------------------------------------------------
def main():
    ap = argparse.ArgumentParser()
    ap.add_argument("prop")
    ap.add_argument("--tier", default=os.environ.get("VERIF_TIER", "quick"), choices=["quick", "thorough"])
    ap.add_argument("--replay")
    ap.add_argument("--only", default=None, help="substring filter on unit ids (development aid)")
    ap.add_argument("--list", action="store_true")
    ap.add_argument("--no-evidence", action="store_true")
    args = ap.parse_args()
    seed = int(os.environ.get("VERIF_SEED", "0") or 0)
    prop = args.prop
    t_start = time.time()

    if args.replay:
        return do_replay(prop, args.replay)

    units = scan_units()
    sel = [u for u in units if prop in u.props or prop == "ALL"]
    if args.tier == "quick":
        sel = [u for u in sel if u.tier == "quick"]
    if args.only:
        sel = [u for u in sel if args.only in u.id or u.expect_fail]
    if args.list:
        for u in sel:
            print(f"{u.id:55s} {u.kind:9s} {u.bound:10s} {u.crate:15s} {u.features:10s} {u.harness}")
        return 0
    kani_units = [u for u in sel if u.backend == "kani"]
    if prop == "WARMUP":
        # setup: build every crate that carries units (default features, and gvariant where used) by running its canary
        os.makedirs(os.path.join(BUILD, "logs", "WARMUP"), exist_ok=True)
        ensure_playback_files()
        for c in [u for u in units if u.expect_fail]:
            run_group(c.crate, "", [c], os.path.join(BUILD, "logs", "WARMUP"), 16)
        gv = [u for u in units if u.features]
        if gv:
            run_group(gv[0].crate, gv[0].features, [gv[0]], os.path.join(BUILD, "logs", "WARMUP"), 16)
        print("WARMUP done")
        return 0
    # canary of every crate involved (must FAIL -> proves the pipeline can fail)
    crates = sorted({u.crate for u in kani_units})
    canaries = [u for u in units if u.expect_fail and u.crate in crates and not u.features]
    for c in canaries:
        if c not in kani_units:
            kani_units.append(c)
    if not [u for u in kani_units if not u.expect_fail] and not verus_units_for(prop):
        print(f"UNDECIDED property={prop} reason=no units registered for this property")
        return 2

    logdir = os.path.join(BUILD, "logs", f"{prop}-{args.tier}")
    os.makedirs(logdir, exist_ok=True)
    ensure_playback_files()
    mem_gb = 16 if args.tier == "quick" else 24

    groups = {}
    for u in kani_units:
        groups.setdefault(u.group(), []).append(u)
    results = {}
    for (crate, features), us in sorted(groups.items()):
        results.update(run_group(crate, features, us, logdir, mem_gb))

    known = load_known_findings()
    violations, undecided, records = [], [], []
    n_complete = n_complete_ok = n_bounded = n_bounded_ok = 0
    solver_time = 0.0
    canary_ok = True
    for u in kani_units:
        r = results[u.id]
        if r.get("time"):
            solver_time += r["time"]
        cl = classify(u, r)
        if u.expect_fail:
            bad = [o for o in cl["obligations"] if o["status"] == "violated"]
            if not bad:
                canary_ok = False
                undecided.append(f"{u.id}: canary obligation did not fail -- pipeline cannot detect failures ({r['status']})")
            continue
        undecided += cl["undecided"]
        for o in cl["obligations"]:
            if prop == "C04" and not o.get("implicit") and not o["id"].startswith("C07."):
                # C04 is crash-freedom: the implicit no_panic obligation of each unit belongs to it, plus the named
                # depth-accounting obligations (C07.*) of the decoder units -- the nesting limits are what bounds the
                # native recursion depth on hostile input (stack overflow clause)
                continue
            rec = {"id": o["id"], "unit": u.id, "harness": u.harness, "functions": u.fns, "kind": u.kind,
                   "bound": u.bound, "backend": "kani/cbmc", "status": o["status"], "harness_seconds": r.get("time"),
                   "cbmc_checks_in_harness": cl["n_checks"]}
            records.append(rec)
            if u.kind == "complete":
                n_complete += 1
                n_complete_ok += o["status"] == "discharged"
            else:
                n_bounded += 1
                n_bounded_ok += o["status"] == "discharged"
            if o["status"] == "violated":
                violations.append((u, o, r))
                if o["id"] in known:
                    # a listed known finding is reported as such and is not part of the proof claim
                    rec["status"] = "known-finding"
                    if u.kind == "complete":
                        n_complete -= 1
                    else:
                        n_bounded -= 1

    # Verus units
    vres = run_verus_units(prop, args.tier, logdir)
    for rec in vres["records"]:
        records.append(rec)
        n_complete += 1
        n_complete_ok += rec["status"] == "discharged"
        solver_time += rec.get("harness_seconds") or 0
    undecided += vres["undecided"]
    verus_violations = vres["violations"]

    # ---- report violations (with native replay) ----
    out_lines = []
    known_lines = []
    n_viol = 0
    os.makedirs(os.path.join(VERIF, "replays"), exist_ok=True)
    for (u, o, r) in violations:
        oid = o["id"]
        is_known = oid in known and known[oid]["property"] in u.props + [prop]
        # phase 2: re-run this harness alone with --concrete-playback=print to obtain the counterexample
        pb = None
        if not (is_known and os.environ.get("VERIF_REPLAY_KNOWN", "0") != "1"):
            if "playback" not in r or not r["playback"]:
                r2 = run_group(u.crate, u.features, [u], logdir, mem_gb, playback=True, skip=r.get("skip") or [])[u.id]
                r["playback"] = r2.get("playback", [])
        for c in o["failed_checks"]:
            for t in r["playback"]:
                if t["desc"] == c["desc"] and t["kind"] != "cover":
                    pb = t
                    break
            if pb:
                break
        if pb is None:
            for t in r["playback"]:
                if t["kind"] != "cover" and any(t["desc"] in c["desc"] or c["desc"] in t["desc"] for c in o["failed_checks"]):
                    pb = t
                    break
        reproduced, excerpt = (None, "verifier printed no concrete playback test for this check")
        if pb is not None and not (is_known and os.environ.get("VERIF_REPLAY_KNOWN", "0") != "1"):
            reproduced, excerpt = native_replay(u, pb["code"], pb["test"], logdir, skip=r.get("skip") or [])
            if reproduced and not o.get("implicit"):
                # must be the same obligation that fails natively
                if oid not in excerpt:
                    # another assertion fired first natively; still a reproduction of *a* failure of this harness
                    pass
        replay_path = os.path.join(VERIF, "replays", f"{prop}-{re.sub(r'[^A-Za-z0-9_.-]', '_', oid)}.json")
        doc = {
            "property": prop, "obligation": oid, "unit": u.id, "harness": u.harness, "crate": u.crate,
            "features": u.features, "functions_under_contract": u.fns, "kind": u.kind, "bound": u.bound,
            "harness_file": os.path.relpath(u.path, VERIF),
            "failed_checks": o["failed_checks"],
            "inputs": decode_playback(pb["code"]) if pb else None,
            "playback_test": pb["code"] if pb else None,
            "playback_test_name": pb["test"] if pb else None,
            "native_replay": {"reproduced": reproduced, "excerpt": excerpt},
            "verifier_cmd": r.get("cmd"), "verifier_log": r.get("log"),
            "verifier_output_tail": r.get("raw_tail", "")[-2500:],
            "how_to_replay": f"./check {prop} --replay {replay_path}",
        }
        if is_known:
            known_lines.append(f"KNOWN-FINDING: property={prop} obligation={oid} {known[oid]['what']}")
            continue
        # an un-named failure (panic / overflow / OOB) whose native replay panics INSIDE the harness file itself is a
        # harness defect (e.g. the harness slices its own buffer out of range), not a property violation
        if o.get("implicit") and reproduced:
            pm = re.search(r"panicked at (\S+?):\d+:\d+", excerpt or "")
            if pm and "verif/harness" in pm.group(1):
                undecided.append(f"{oid}: the panic is raised by the harness itself ({pm.group(1)}) -- harness defect, not a violation")
                continue
        json.dump(doc, open(replay_path, "w"), indent=1)
        if reproduced is False and u.nondet_stubs:
            undecided.append(f"{oid}: failed against a nondeterministic contract stub but does not reproduce on the real callee")
            continue
        n_viol += 1
        line = f"VIOLATION property={prop} replay={replay_path} obligation={oid}"
        if not reproduced:
            line += " no-failing-input-found"
        out_lines.append(line)
    for v in verus_violations:
        oid = v["id"]
        if oid in known:
            known_lines.append(f"KNOWN-FINDING: property={prop} obligation={oid} {known[oid]['what']}")
            continue
        replay_path = os.path.join(VERIF, "replays", f"{prop}-{re.sub(r'[^A-Za-z0-9_.-]', '_', oid)}.json")
        json.dump(v, open(replay_path, "w"), indent=1)
        n_viol += 1
        out_lines.append(f"VIOLATION property={prop} replay={replay_path} obligation={oid} no-failing-input-found")

    wall = time.time() - t_start
    # ---- evidence ----
    if not args.no_evidence and not args.only:
        write_evidence(prop, args.tier, seed, sel, records, n_complete, n_complete_ok, n_bounded, n_bounded_ok,
                       solver_time, wall, n_viol, known_lines, undecided, results, kani_units, vres)

    for l in known_lines:
        print(l)
    for l in out_lines:
        print(l)
    ok_units = len([u for u in kani_units if not u.expect_fail])
    print(f"SUMMARY property={prop} tier={args.tier} units={ok_units}+{len(vres['records'])}verus complete_obligations={n_complete_ok}/{n_complete} "
          f"bounded_obligations={n_bounded_ok}/{n_bounded} violations={n_viol} known={len(known_lines)} undecided={len(undecided)} wall={wall:.0f}s")
    if n_viol:
        for x in undecided:
            print("note(undecided): " + x)
        return 1
    if undecided or not canary_ok:
        for x in undecided:
            print(f"UNDECIDED property={prop} reason={x}")
        return 2
    return 0


def do_replay(prop, path):
    doc = json.load(open(path))
    units = {u.id: u for u in scan_units()}
    u = units.get(doc.get("unit"))
    if u is None or not doc.get("playback_test"):
        print(f"replay: obligation {doc.get('obligation')} has no concrete input (verifier output is in the file)")
        print(doc.get("verifier_output_tail", "")[-1500:])
        return 1
    logdir = os.path.join(BUILD, "logs", f"{prop}-replay")
    os.makedirs(logdir, exist_ok=True)
    rep, excerpt = native_replay(u, doc["playback_test"], doc["playback_test_name"], logdir)
    print(f"obligation {doc['obligation']} harness {u.harness}: native replay reproduced={rep}")
    print(excerpt)
    if rep:
        print(f"VIOLATION property={prop} replay={path} obligation={doc['obligation']}")
        return 1
    return 0 if rep is False else 2


# ------------------------------------------------------------------------------------------------
# Verus
# ------------------------------------------------------------------------------------------------
def verus_units_for(prop):
    try:
        sys.path.insert(0, os.path.join(VERIF, "verus"))
        import units as vu  # noqa
        return [x for x in vu.UNITS if prop in x["props"] or prop == "ALL"]
    except ImportError:
        return []


def run_verus_units(prop, tier, logdir):
    res = {"records": [], "undecided": [], "violations": [], "files": [], "rewrites": []}
    us = verus_units_for(prop)
    if not us:
        return res
    sys.path.insert(0, os.path.join(VERIF, "tools"))
    import lift
    for x in us:
        if tier == "quick" and x.get("tier", "quick") != "quick":
            continue
        r = lift.run_unit(x, REPO, os.path.join(BUILD, "verus"), logdir)
        res["files"].append(r.get("file"))
        res["rewrites"] += r.get("rewrites", [])
        if r["status"] == "undecided":
            res["undecided"].append(f"{x['id']}: {r['reason']}")
            continue
        for o in r["obligations"]:
            rec = {"id": o["id"], "unit": x["id"], "harness": r.get("file"), "functions": x["fns"], "kind": "complete",
                   "bound": "", "backend": "verus/z3", "status": o["status"], "harness_seconds": o.get("seconds"),
                   "lift_rewrites": r.get("rewrites", [])}
            res["records"].append(rec)
            if o["status"] == "violated":
                res["violations"].append({"property": prop, "obligation": o["id"], "id": o["id"], "unit": x["id"],
                                          "functions_under_contract": x["fns"], "backend": "verus",
                                          "verifier_output": o.get("message", ""), "lifted_file": r.get("file"),
                                          "inputs": None,
                                          "note": "Verus gives no counterexample; the paired Kani unit supplies the replayable input when it fails too"})
            elif o["status"] == "undecided":
                res["undecided"].append(f"{o['id']}: {o.get('message', '')[:200]}")
    return res


# ------------------------------------------------------------------------------------------------
# evidence
# ------------------------------------------------------------------------------------------------
def manifest_level(prop):
    try:
        man = json.load(open(os.path.join(VERIF, "MANIFEST.json")))
        for c in man["checks"]:
            if c["property_id"] == prop:
                return c["level_claimed"]["category"]
    except Exception:
        pass
    return "other"


def write_evidence(prop, tier, seed, sel, records, n_complete, n_complete_ok, n_bounded, n_bounded_ok,
                   solver_time, wall, n_viol, known_lines, undecided, results, kani_units, vres):
    level = manifest_level(prop)
    fns = sorted({f for u in sel for f in u.fns} | {f for rec in records for f in rec.get("functions", [])})
    bounds = sorted({f"{u.id}: {u.kind} {u.bound}".strip() for u in sel if u.kind != "complete"})
    files = sorted({u.path for u in sel} | {os.path.join(HARNESS_DIR, "common.rs")} |
                   set(glob.glob(os.path.join(VERIF, "spec", "*.rs"))) | {f for f in vres["files"] if f})
    assumptions_scan = scan_assumptions(files)
    stubs = sorted({f"{u.id} uses contract stub of {s}" for u in sel for s in u.stubs})
    cmds = sorted({r.get("cmd") for r in results.values() if r.get("cmd")})
    samples = records[:12]
    viol_recs = [r for r in records if r["status"] != "discharged"]
    cov = {
        "obligations": n_complete,
        "discharged": n_complete_ok,
        "checker_cmd": " ; ".join(cmds)[:4000] if cmds else "verus <lifted file> --output-json --time",
        "trusted_base": TRUSTED_BASE,
        "samples": samples,
        "explanation": (
            f"Contract check of property {prop} at tier {tier}: {len([u for u in kani_units if not u.expect_fail])} Kani units "
            f"and {len(vres['records'])} Verus obligations on real functions of /repo. "
            f"`obligations`/`discharged` count ONLY complete obligations (no bound on any input); "
            f"bounded/instance obligations are counted separately in bounded_obligations/bounded_discharged and are not proofs beyond their stated bound."),
        "bounded_obligations": n_bounded,
        "bounded_discharged": n_bounded_ok,
        "bounds": bounds,
        "functions_under_contract": fns,
        "backends": sorted({r["backend"] for r in records}),
        "solver_time_s": round(solver_time, 2),
        "all_obligations": [{"id": r["id"], "status": r["status"], "kind": r["kind"], "bound": r["bound"],
                             "backend": r["backend"], "seconds": r["harness_seconds"]} for r in records],
        "not_discharged": viol_recs,
        "contract_stubs": stubs,
        "unchecked_assumptions_scan": assumptions_scan,
        "known_findings": known_lines,
        "undecided": undecided,
        "verus_lift_rewrites": sorted(set(vres["rewrites"])),
        "exhaustive": False,
        "evaluations": len(records),
        "distinct_nontrivial": len({r["id"] for r in records if prop == "C04" or not r["id"].endswith(".no_panic")}),
        "rule": "one evaluation = one obligation (named ensures clause, or the implicit no_panic obligation of a unit) of one contracted function, decided by the verifier for all inputs in the unit's domain; distinct_nontrivial counts the distinct NAMED ensures clauses only (the implicit no_panic obligations are left out, except for C04 whose obligations are exactly those)",
    }
    ev = {
        "property_id": prop, "tier": tier, "seed": seed, "level": level, "coverage": cov,
        "assumptions": TRUSTED_BASE + [f"bounded: {b}" for b in bounds] + stubs,
        "wall_s": round(wall, 1), "violations": n_viol,
    }
    os.makedirs(os.path.join(VERIF, "evidence"), exist_ok=True)
    json.dump(ev, open(os.path.join(VERIF, "evidence", f"{prop}.json"), "w"), indent=1)


if __name__ == "__main__":
    sys.exit(main())
