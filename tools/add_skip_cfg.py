#!/usr/bin/env python3
"""Inserts `#[cfg(not(verif_skip_<harness>))]` after every `// @unit` annotation that lacks it (lost-anchor isolation,
see runner.run_group).  Run after adding units."""
import re, sys, os
sys.path.insert(0, os.path.dirname(os.path.abspath(__file__)))
import runner
byfile = {}
for u in runner.scan_units():
    byfile.setdefault(u.path, []).append(u)
for path, us in byfile.items():
    lines = open(path).read().split("\n")
    out, i, n = [], 0, 0
    names = {u.id: u.harness for u in us}
    while i < len(lines):
        m = re.match(r"\s*// @unit\s+(\S+)", lines[i])
        out.append(lines[i]); i += 1
        if m:
            while i < len(lines) and re.match(r"\s*// @\+", lines[i]):
                out.append(lines[i]); i += 1
            tag = f"#[cfg(not(verif_skip_{names[m.group(1)]}))]"
            if lines[i].strip() != tag:
                out.append(tag); n += 1
    if n:
        open(path, "w").write("\n".join(out)); print(path, n)
