#!/bin/sh
# Runs the repository's pinned baseline suite with the verification guard OFF (plain cargo: cfg(kani) unset)
# and compares against /root/.vp/BASELINE.json's stable_pass list.  Exit 0 iff every stable test passed.
cd /repo || exit 2
OUT=$(mktemp)
if [ -f /w/lib/nextest.toml ]; then
  cargo nextest run --workspace --no-fail-fast --tool-config-file pb:/w/lib/nextest.toml --profile pb --test-threads 8 --offline >"$OUT" 2>&1
else
  cargo test --workspace --no-fail-fast --offline >"$OUT" 2>&1
fi
python3 - "$OUT" <<'PY'
import json, sys, xml.etree.ElementTree as ET
base = json.load(open("/root/.vp/BASELINE.json"))["stable_pass"]
passed = set()
try:
    root = ET.parse("/repo/target/nextest/pb/junit.xml").getroot()
    for tc in root.iter("testcase"):
        if tc.find("failure") is None and tc.find("error") is None:
            passed.add(tc.get("classname") + "::" + tc.get("name"))
            passed.add(tc.get("classname").split("::")[0] + "::" + tc.get("name"))
except Exception as e:
    print("baseline: cannot read junit.xml:", e)
missing = [t for t in base if t not in passed]
print(f"baseline: {len(base) - len(missing)}/{len(base)} stable tests passed")
for t in missing:
    print("  NOT PASSED:", t)
sys.exit(1 if missing else 0)
PY
rc=$?
rm -f "$OUT"
exit $rc
