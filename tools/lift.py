#!/usr/bin/env python3
"""
Mechanical lift of real /repo functions into a single Verus file (DESIGN.md §2.3, §9.7).

Verus here only verifies a single file (`verus f.rs`; `cargo verus` cannot resolve vstd offline), so the
functions under contract are **re-extracted from /repo's working tree on every run**: the item text is
sliced out of the real source file by brace matching and placed verbatim inside a `verus! { .. }` block,
after exactly the rewrites listed below (each applied rewrite is recorded per unit and reported in the
evidence file).  Contracts (requires / ensures / loop invariants / decreases) are *inserted* between the
extracted signature and the extracted body -- the body text itself is never edited beyond the rewrites.

Rewrites (the complete list; anything else that Verus does not accept => the unit is UNDECIDED, exit 2):
  R1  doc comments, line comments and attributes are dropped (`#[derive(..)]` is reduced to its Clone/Copy/
      PartialEq/Eq members, which Verus understands; `#[repr(..)]` kept)
  R2  visibility of extracted items / fields / inherent methods is widened to `pub` (so that spec clauses may
      mention them)
  R3  a `mut self` / `mut x: T` by-value parameter becomes `self` / `x` plus a first body statement
      `let mut this = self;` / `let mut x = x;`, and `self` is renamed to `this` in the body (Verus rejects
      `mut` by-value parameters)
  R4  `#[cfg(..)]`-guarded fields / statements / match arms / items are kept or dropped according to the unit's
      stated configuration (feature set, unix, 64-bit)
  R5  the types the extracted code mentions but does not define (crate error enums, ..) are declared in a
      per-unit prelude with the same shape
  R6  the return type `-> T` of a contracted fn is written `-> (r: T)` so that `ensures` can name the result
  R7  the message arguments of `assert!(cond, "..", ..)` are dropped (`assert!(cond)` stays an exec-mode
      obligation: Verus must prove the assertion cannot fire) and `.expect("..")` becomes `.unwrap()`
      (same panic condition, no message)
  R8  `std::u8::MAX`-style legacy constant paths are written `u8::MAX` (same value; Verus has specs for the latter)
"""
import json, os, re, subprocess, time


class LiftError(Exception):
    pass


# ------------------------------------------------------------------------------------------------
# a tiny Rust lexer: mask[i] == True  <=>  text[i] is code (not inside a comment / string / char literal)
# ------------------------------------------------------------------------------------------------
def code_mask(text):
    n = len(text)
    mask = [True] * n
    i = 0
    while i < n:
        c = text[i]
        if text.startswith("//", i):
            j = text.find("\n", i)
            j = n if j < 0 else j
            for k in range(i, j):
                mask[k] = False
            i = j
        elif text.startswith("/*", i):
            depth, j = 1, i + 2
            while j < n and depth:
                if text.startswith("/*", j):
                    depth += 1
                    j += 2
                elif text.startswith("*/", j):
                    depth -= 1
                    j += 2
                else:
                    j += 1
            for k in range(i, j):
                mask[k] = False
            i = j
        elif c == '"' or (c == 'b' and text.startswith('b"', i)) or (c == 'r' and re.match(r'r#*"', text[i:i + 8])):
            if c == 'r':
                m = re.match(r'r(#*)"', text[i:])
                end = text.find('"' + m.group(1), i + len(m.group(0)))
                j = n if end < 0 else end + 1 + len(m.group(1))
            else:
                j = i + (2 if c == 'b' else 1)
                while j < n and text[j] != '"':
                    j += 2 if text[j] == "\\" else 1
                j += 1
            for k in range(i + 1, min(j, n) - 1):
                mask[k] = False
            i = j
        elif c == "'":
            # char literal or lifetime
            m = re.match(r"'(\\.[^']*|[^'\\])'", text[i:i + 12])
            if m:
                for k in range(i + 1, i + len(m.group(0)) - 1):
                    mask[k] = False
                i += len(m.group(0))
            else:
                i += 1
        else:
            i += 1
    return mask


def match_close(text, mask, i, open_c="{", close_c="}"):
    """text[i] is an opening bracket (code); returns index of the matching closer."""
    depth = 0
    for j in range(i, len(text)):
        if not mask[j]:
            continue
        if text[j] == open_c:
            depth += 1
        elif text[j] == close_c:
            depth -= 1
            if depth == 0:
                return j
    raise LiftError("unbalanced brackets")


def find_code(text, mask, pat, start=0):
    """first regex match at/after start whose first char is code"""
    for m in re.finditer(pat, text[start:], re.M):
        if mask[start + m.start()]:
            return start + m.start(), start + m.end(), m
    return None


# ------------------------------------------------------------------------------------------------
# item extraction
# ------------------------------------------------------------------------------------------------
ITEM_PATS = {
    "const": r"^(?:pub(?:\([a-z]+\))?\s+)?const\s+%s\s*:",
    "static": r"^(?:pub(?:\([a-z]+\))?\s+)?static\s+%s\s*:",
    "struct": r"^(?:pub(?:\([a-z]+\))?\s+)?struct\s+%s\b",
    "enum": r"^(?:pub(?:\([a-z]+\))?\s+)?enum\s+%s\b",
    "impl": r"^impl(?:<[^>]*>)?\s+%s\b[^\n{]*\{",
    "fn": r"^(?:pub(?:\([a-z]+\))?\s+)?(?:const\s+)?fn\s+%s\b",
}


def extract_item(src, kind, name, nth=0):
    mask = code_mask(src)
    pat = ITEM_PATS[kind] % re.escape(name)
    pos = 0
    hit = None
    for _ in range(nth + 1):
        hit = find_code(src, mask, pat, pos)
        if hit is None:
            raise LiftError(f"lost anchor: no top-level `{kind} {name}` in source")
        pos = hit[1]
    start = hit[0]
    # walk back over attribute / doc-comment lines
    lines_before = src[:start].split("\n")
    k = len(lines_before) - 1  # lines_before[-1] is the (empty) prefix of the item line
    s = start
    j = k - 1
    while j >= 0 and re.match(r"\s*(#\[|///|//)", lines_before[j]):
        s -= len(lines_before[j]) + 1
        j -= 1
    if kind in ("const", "static"):
        e = start
        depth = 0
        while e < len(src):
            if mask[e]:
                if src[e] in "([{":
                    depth += 1
                elif src[e] in ")]}":
                    depth -= 1
                elif src[e] == ";" and depth == 0:
                    break
            e += 1
        return src[s:e + 1]
    # struct may be `struct X;` or tuple struct `struct X(..);`
    b = start
    while b < len(src) and not (mask[b] and src[b] in "{;"):
        b += 1
    if src[b] == ";":
        return src[s:b + 1]
    e = match_close(src, mask, b)
    return src[s:e + 1]


# ------------------------------------------------------------------------------------------------
# rewrites
# ------------------------------------------------------------------------------------------------
def eval_cfg(pred, cfg):
    pred = pred.strip()
    m = re.match(r"^not\((.*)\)$", pred, re.S)
    if m:
        return not eval_cfg(m.group(1), cfg)
    m = re.match(r"^(all|any)\((.*)\)$", pred, re.S)
    if m:
        parts, depth, cur = [], 0, ""
        for ch in m.group(2):
            if ch == "(":
                depth += 1
            if ch == ")":
                depth -= 1
            if ch == "," and depth == 0:
                parts.append(cur)
                cur = ""
            else:
                cur += ch
        if cur.strip():
            parts.append(cur)
        vals = [eval_cfg(p, cfg) for p in parts]
        return all(vals) if m.group(1) == "all" else any(vals)
    key = re.sub(r"\s+", "", pred)
    if key in cfg:
        return cfg[key]
    raise LiftError(f"unsupported construct: cfg predicate `{pred}` not in the unit's configuration")


def cfg_extent(text, mask, i):
    """text[i:] starts right after a #[cfg(..)] attribute; returns end index (exclusive) of the guarded thing."""
    n = len(text)
    j = i
    # skip whitespace and further attributes
    while True:
        while j < n and text[j].isspace():
            j += 1
        if text.startswith("#[", j) and mask[j]:
            j = match_close(text, mask, j + 1, "[", "]") + 1
            continue
        break
    head = text[j:j + 40]
    is_item = re.match(r"(pub(\([a-z]+\))?\s+)?(const\s+)?(unsafe\s+)?(fn|impl|mod|struct|enum)\b", head) is not None
    depth = 0
    k = j
    saw_arrow = False
    while k < n:
        if not mask[k]:
            k += 1
            continue
        c = text[k]
        if c in "([{":
            close = {"(": ")", "[": "]", "{": "}"}[c]
            e = match_close(text, mask, k, c, close)
            if c == "{" and depth == 0:
                if is_item:
                    return e + 1
                # match arm with a block body, or block expression followed by , / ;
                rest = text[e + 1:]
                m = re.match(r"\s*([,;])", rest)
                if m:
                    return e + 1 + m.end()
                if saw_arrow:
                    return e + 1
            k = e + 1
            continue
        if c == "=" and text.startswith("=>", k):
            saw_arrow = True
        if c in ",;" and depth == 0:
            return k + 1
        if c in ")]}":
            # end of the enclosing list without a trailing separator
            return k
        k += 1
    return n


def apply_cfg(text, cfg, applied):
    while True:
        mask = code_mask(text)
        hit = find_code(text, mask, r"#\[cfg\(")
        if hit is None:
            return text
        a = hit[0]
        close = match_close(text, mask, a + 1, "[", "]")
        pred = text[a + len("#[cfg("):close - 1]
        keep = eval_cfg(pred, cfg)
        applied.add(f"R4 cfg({re.sub(chr(10), ' ', pred).strip()}) -> {'kept' if keep else 'dropped'}")
        if keep:
            text = text[:a] + text[close + 1:]
        else:
            e = cfg_extent(text, mask, close + 1)
            text = text[:a] + text[e:]


def drop_comments_and_attrs(text, applied, keep_derives=("Clone", "Copy", "PartialEq", "Eq")):
    mask = code_mask(text)
    out = []
    i = 0
    n = len(text)
    while i < n:
        if text.startswith("//", i) and (i == 0 or mask[i - 1] or text[i - 1] in "\n \t"):
            # a comment start is "non-code" in the mask from its first char
            if not mask[i]:
                j = text.find("\n", i)
                j = n if j < 0 else j
                applied.add("R1 comments dropped")
                i = j
                continue
        if text.startswith("#[", i) and mask[i]:
            close = match_close(text, mask, i + 1, "[", "]")
            attr = text[i:close + 1]
            m = re.match(r"#\[derive\((.*)\)\]$", attr, re.S)
            if m:
                keep = [d.strip() for d in m.group(1).split(",") if d.strip() in keep_derives]
                if keep:
                    out.append("#[derive(" + ", ".join(keep) + ")]")
                applied.add("R1 derive reduced to " + (",".join(keep) or "nothing"))
            elif attr.startswith("#[repr("):
                out.append(attr)
            else:
                applied.add("R1 attribute dropped: " + attr.split("(")[0].strip("#[]"))
            i = close + 1
            continue
        out.append(text[i])
        i += 1
    return "".join(out)


def widen_visibility(text, kind, applied):
    before = text
    if kind in ("const", "static", "struct", "enum", "fn"):
        text = re.sub(r"^(\s*)(?:pub(?:\([a-z]+\))?\s+)?(?=(const|static|struct|enum|fn)\b)", r"\1pub ", text, count=1, flags=re.M)
    if kind == "struct":
        # named fields
        head, brace, body = text.partition("{")
        if brace:
            body = re.sub(r"(^|[,{]\s*|\n\s*)(?:pub(?:\([a-z]+\))?\s+)?([a-z_][a-z0-9_]*\s*:)", r"\1pub \2", body)
            text = head + brace + body
    if kind == "impl" and not re.match(r"\s*impl(?:<[^>]*>)?\s+\S+\s+for\b", text):
        text = re.sub(r"^(\s*)(?:pub(?:\([a-z]+\))?\s+)?(?=(?:const\s+)?fn\b)", r"\1pub ", text, flags=re.M)
    if text != before:
        applied.add("R2 visibility widened to pub")
    return text


def rewrite_asserts(text, applied):
    mask = code_mask(text)
    out = []
    i = 0
    while True:
        hit = find_code(text, mask, r"\bassert!\s*\(", i)
        if hit is None:
            out.append(text[i:])
            break
        a, b, _ = hit
        close = match_close(text, mask, b - 1, "(", ")")
        inner = text[b:close]
        imask = mask[b:close]
        depth = 0
        cut = None
        for k, ch in enumerate(inner):
            if not imask[k]:
                continue
            if ch in "([{":
                depth += 1
            elif ch in ")]}":
                depth -= 1
            elif ch == "," and depth == 0:
                cut = k
                break
        cond = inner if cut is None else inner[:cut]
        if cut is not None and inner[cut + 1:].strip():
            applied.add("R7 assert! message dropped")
        out.append(text[i:a] + "assert!(" + cond.strip() + ")")
        i = close + 1
    text = "".join(out)
    new = re.sub(r"\.expect\(\s*\"[^\"]*\"\s*\)", ".unwrap()", text)
    if new != text:
        applied.add("R7 .expect(msg) -> .unwrap()")
    text = new
    new = re.sub(r"\bstd::(u8|u16|u32|u64|usize|i8|i16|i32|i64)::(MAX|MIN)\b", r"\1::\2", text)
    if new != text:
        applied.add("R8 std::uN::MAX -> uN::MAX")
    return new


def split_fns(text):
    """yield (name, sig_start, body_open, body_close) for every fn in text (top level of an impl or a bare fn)."""
    mask = code_mask(text)
    res = []
    pos = 0
    while True:
        hit = find_code(text, mask, r"\bfn\s+([A-Za-z_][A-Za-z0-9_]*)", pos)
        if hit is None:
            break
        a, b, m = hit
        # find body open: first `{` at paren/bracket depth 0 after the parameter list
        k = b
        while k < len(text) and not (mask[k] and text[k] == "("):
            k += 1
        k = match_close(text, mask, k, "(", ")") + 1
        while k < len(text) and not (mask[k] and text[k] in "{;"):
            if mask[k] and text[k] in "(<[" and text[k] != "<":
                k = match_close(text, mask, k, text[k], {"(": ")", "[": "]"}[text[k]])
            k += 1
        if text[k] == ";":
            pos = k + 1
            continue
        close = match_close(text, mask, k)
        # start of the signature line (include `pub const` etc.)
        ls = text.rfind("\n", 0, a) + 1
        res.append((m.group(1), ls, k, close))
        pos = close + 1
    return res


def rewrite_fn(text, name, contract, applied):
    """Insert the contract into fn `name` inside `text` and apply R3/R6."""
    fns = [f for f in split_fns(text) if f[0] == name]
    if not fns:
        raise LiftError(f"lost anchor: fn `{name}` not found in the extracted item")
    _, ls, bo, bc = fns[0]
    sig = text[ls:bo]
    body = text[bo + 1:bc]
    pre_stmts = ""
    # R3
    if re.search(r"\(\s*mut\s+self\b", sig):
        sig = re.sub(r"\(\s*mut\s+self\b", "(self", sig)
        bmask = code_mask(body)
        nb = []
        i = 0
        for m in re.finditer(r"\bself\b", body):
            if bmask[m.start()]:
                nb.append(body[i:m.start()] + "this")
                i = m.end()
        nb.append(body[i:])
        body = "".join(nb)
        pre_stmts += "\n        let mut this = self;"
        applied.add("R3 `mut self` -> `self` + `let mut this = self;`")
    for m in list(re.finditer(r"\bmut\s+([a-z_][a-z0-9_]*)\s*:", sig)):
        if re.search(r"&\s*$", sig[:m.start()]):
            continue
        v = m.group(1)
        sig = sig.replace(m.group(0), f"{v}:", 1)
        pre_stmts += f"\n        let mut {v} = {v};"
        applied.add(f"R3 `mut {v}` parameter -> shadowing let")
    # R6
    if contract.get("ensures") or contract.get("result_name"):
        rn = contract.get("result_name", "r")
        m = re.search(r"->\s*([^{]+?)\s*(where\b.*)?$", sig, re.S)
        if m and not m.group(1).startswith("("):
            sig = sig[:m.start()] + f"-> ({rn}: {m.group(1).strip()})" + (" " + m.group(2) if m.group(2) else "") + "\n"
            applied.add("R6 named return value")
    spec = ""
    if contract.get("requires"):
        spec += "        requires\n" + "".join(f"            {c},\n" for c in contract["requires"])
    if contract.get("ensures"):
        spec += "        ensures\n" + "".join(f"            {c}, // @obl {oid}\n" for oid, c in contract["ensures"])
    if contract.get("decreases"):
        spec += f"        decreases {contract['decreases']},\n"
    # loops
    loops = contract.get("loops", {})
    if loops:
        bmask = code_mask(body)
        heads = []
        for m in re.finditer(r"\b(loop|while|for)\b", body):
            if bmask[m.start()]:
                k = m.end()
                while not (bmask[k] and body[k] == "{"):
                    if bmask[k] and body[k] in "([":
                        k = match_close(body, bmask, k, body[k], {"(": ")", "[": "]"}[body[k]])
                    k += 1
                heads.append(k)
        ins = []
        for idx, ltxt in loops.items():
            if int(idx) >= len(heads):
                raise LiftError(f"lost anchor: fn `{name}` has no loop #{idx}")
            ins.append((heads[int(idx)], ltxt))
        for k, ltxt in sorted(ins, reverse=True):
            body = body[:k] + "\n" + ltxt + "\n            " + body[k:]
    # ghost insertions (proof blocks only; exec text is not edited): after the statement that matches an anchor
    for anchor, ptxt in contract.get("proof_after", []):
        bmask = code_mask(body)
        hit = find_code(body, bmask, anchor)
        if hit is None:
            raise LiftError(f"lost anchor: fn `{name}` has no statement matching /{anchor}/ (needed to place a proof block)")
        k = hit[1]
        depth = 0
        while k < len(body):
            if bmask[k]:
                if body[k] in "([{":
                    depth += 1
                elif body[k] in ")]}":
                    depth -= 1
                elif body[k] == ";" and depth == 0:
                    break
            k += 1
        if k >= len(body):
            raise LiftError(f"lost anchor: statement matching /{anchor}/ in fn `{name}` has no terminating `;`")
        ptxt = "\n".join(l + "  // @ghost" for l in ptxt.split("\n"))
        body = body[:k + 1] + "\n        proof {  // @ghost\n" + ptxt + "\n        }  // @ghost" + body[k + 1:]
    for anchor, ptxt in contract.get("proof_before", []):
        bmask = code_mask(body)
        hit = find_code(body, bmask, anchor)
        if hit is None:
            raise LiftError(f"lost anchor: fn `{name}` has no statement matching /{anchor}/ (needed to place a proof block)")
        k = body.rfind("\n", 0, hit[0]) + 1
        ptxt = "\n".join(l + "  // @ghost" for l in ptxt.split("\n"))
        body = body[:k] + "        proof {  // @ghost\n" + ptxt + "\n        }  // @ghost\n" + body[k:]
    new = sig.rstrip() + "\n" + spec + "    {" + pre_stmts + body + "}"
    return text[:ls] + new + text[bc + 1:]


# ------------------------------------------------------------------------------------------------
# unit assembly and run
# ------------------------------------------------------------------------------------------------
def build_unit(unit, repo):
    applied = set()
    path = os.path.join(repo, unit["file"])
    if not os.path.exists(path):
        raise LiftError(f"lost anchor: {unit['file']} does not exist")
    src0 = open(path).read()
    parts = []
    for it in unit["items"]:
        kind, name = it["kind"], it["name"]
        src = src0
        if it.get("file"):
            ipath = os.path.join(repo, it["file"])
            if not os.path.exists(ipath):
                raise LiftError(f"lost anchor: {it['file']} does not exist")
            src = open(ipath).read()
        text = extract_item(src, kind, name, it.get("nth", 0))
        text = apply_cfg(text, unit.get("cfg", {}), applied)
        text = drop_comments_and_attrs(text, applied, tuple(it.get("derives", ("Clone", "Copy", "PartialEq", "Eq"))))
        text = widen_visibility(text, kind, applied)
        text = rewrite_asserts(text, applied)
        only = it.get("only_fns")
        if kind == "impl" and only is not None:
            # keep only the listed fns of the impl (others are outside the unit and would need their own support)
            fns = split_fns(text)
            keep = [f for f in fns if f[0] in only]
            missing = set(only) - {f[0] for f in keep}
            if missing:
                raise LiftError(f"lost anchor: fn(s) {sorted(missing)} not found in impl {name}")
            head = text[:text.index("{") + 1]
            text = head + "\n" + "\n\n".join("    " + text[f[1]:f[3] + 1].strip() for f in keep) + "\n}"
            applied.add("impl reduced to the fns under contract: " + ",".join(only))
        for fname, contract in unit.get("contracts", {}).items():
            if it.get("fns") is not None and fname not in it["fns"]:
                continue
            if kind in ("impl", "fn") and any(f[0] == fname for f in split_fns(text)):
                text = rewrite_fn(text, fname, contract, applied)
        parts.append(f"// ---- extracted from {it.get('file') or unit['file']}: {kind} {name} ----\n" + text.strip() + "\n")
    missing = [f for f in unit.get("contracts", {}) if not any(re.search(r"\bfn\s+" + re.escape(f) + r"\b", p) for p in parts)]
    if missing:
        raise LiftError(f"lost anchor: contracted fn(s) {missing} not extracted")
    out = ["// GENERATED by /verif/tools/lift.py on every run from " + unit["file"] + " -- do not edit",
           "#![allow(unused_imports, dead_code, unused_variables, unused_mut, unused_parens)]",
           "use vstd::prelude::*;", "verus! {", "global size_of usize == 8;", unit.get("prelude", ""), *parts,
           unit.get("lemmas", ""), "} // verus!", "fn main() {}", ""]
    return "\n".join(out), sorted(applied)


ERR_RE = re.compile(r"^(error(?:\[E\d+\])?|note|warning): (.*)$")


def parse_verus_stderr(err, gen_lines, fn_spans):
    """returns list of {kind, msg, line, obl (or None), fn (or None), text}"""
    blocks = []
    cur = None
    for line in err.split("\n"):
        m = ERR_RE.match(line)
        if m and m.group(1).startswith("error"):
            cur = {"msg": m.group(2), "lines": [line], "locs": []}
            blocks.append(cur)
            continue
        if cur is None:
            continue
        cur["lines"].append(line)
        m = re.match(r"\s*--> [^:]+:(\d+):(\d+)", line)
        if m:
            cur["locs"].append(int(m.group(1)))
        m = re.match(r"\s*(\d+)\s*\|.*$", line)
        if m:
            cur.setdefault("shown", []).append(int(m.group(1)))
    res = []
    for b in blocks:
        if b["msg"].startswith("aborting due to"):
            continue
        line = b["locs"][0] if b["locs"] else None
        obl = None
        fn = None
        cand = ([line] if line else []) + b.get("shown", [])
        for ln in cand:
            if 1 <= ln <= len(gen_lines):
                m = re.search(r"// @obl (\S+)", gen_lines[ln - 1])
                if m:
                    obl = m.group(1)
                    break
        for ln in cand:
            for (name, a, z) in fn_spans:
                if a <= ln <= z:
                    fn = name
                    break
            if fn:
                break
        ghost = bool(line and 1 <= line <= len(gen_lines) and "// @ghost" in gen_lines[line - 1])
        res.append({"msg": b["msg"], "line": line, "obl": obl, "fn": fn, "ghost": ghost, "text": "\n".join(b["lines"])[:3000]})
    return res


VERIF_MSGS = ("postcondition not satisfied", "precondition not satisfied", "assertion failed", "possible arithmetic",
              "invariant not satisfied", "decreases not satisfied", "possible division by zero", "possible bit shift",
              "recommendation not met", "unwrap", "loop invariant", "unreachable", "panic", "possible truncation",
              "Could not show termination", "could not prove termination")


def run_unit(unit, repo, builddir, logdir):
    os.makedirs(builddir, exist_ok=True)
    fname = os.path.join(builddir, re.sub(r"[^A-Za-z0-9_]", "_", unit["id"]) + ".rs")
    try:
        text, applied = build_unit(unit, repo)
    except LiftError as e:
        return {"status": "undecided", "reason": f"lift: {e}", "file": None, "rewrites": [], "obligations": []}
    open(fname, "w").write(text)
    gen_lines = text.split("\n")
    # fn spans in the generated file (for attributing un-named failures)
    fn_spans = []
    for (name, ls, bo, bc) in split_fns(text):
        fn_spans.append((name, text.count("\n", 0, ls) + 1, text.count("\n", 0, bc) + 1))
    cmd = ["verus", fname, "--output-json", "--time", "--rlimit", str(unit.get("rlimit", 30))]
    t0 = time.time()
    try:
        p = subprocess.run(cmd, stdout=subprocess.PIPE, stderr=subprocess.PIPE, timeout=unit.get("timeout", 300),
                           cwd=builddir)
    except subprocess.TimeoutExpired:
        return {"status": "undecided", "reason": "verus timed out", "file": fname, "rewrites": applied, "obligations": []}
    wall = time.time() - t0
    out, err = p.stdout.decode(errors="replace"), p.stderr.decode(errors="replace")
    open(os.path.join(logdir, os.path.basename(fname) + ".verus.log"), "w").write("$ " + " ".join(cmd) + "\n" + err + "\n" + out)
    try:
        js = json.loads(out[out.index("{"):])
    except Exception:
        return {"status": "undecided", "reason": "verus produced no JSON: " + err[-400:], "file": fname, "rewrites": applied,
                "obligations": []}
    vr = js.get("verification-results", {})
    errs = parse_verus_stderr(err, gen_lines, fn_spans)
    # per function times
    ftime = {}
    try:
        for mod in js["times-ms"]["smt"]["smt-run-module-times"]:
            for fb in mod.get("function-breakdown", []):
                ftime[fb["function"].split("::")[-1]] = (fb.get("time-micros", 0) / 1e6, fb.get("success"))
    except Exception:
        pass
    hard = [e for e in errs if not any(k in e["msg"] for k in VERIF_MSGS)]
    if vr.get("encountered-vir-error") or (hard and not vr.get("verified") and not vr.get("errors")) or \
            (vr.get("encountered-error") and not errs):
        why = (hard[0]["msg"] if hard else err[-300:])
        return {"status": "undecided", "reason": "verus rejected the lifted file (unsupported construct / type error): " + why[:300],
                "file": fname, "rewrites": applied, "obligations": [], "cmd": " ".join(cmd)}
    obligations = []
    uid = unit["id"]
    failed_obl = {}
    failed_fn = {}
    undecided_fn = {}
    for e in errs:
        if e.get("ghost"):
            # a proof hint (inserted ghost block) no longer fits the code: proof failure, not a property violation
            e["text"] = "proof hint inserted by the lift no longer applies to the function body (undecided, not a violation)\n" + e["text"]
            undecided_fn[e["fn"] or "?"] = e
        elif "rlimit" in e["msg"] or "Resource limit" in e["msg"] or "timed out" in e["msg"]:
            undecided_fn[e["fn"] or "?"] = e
        elif e["obl"]:
            failed_obl.setdefault(e["obl"], e)
        elif any(k in e["msg"] for k in VERIF_MSGS):
            failed_fn.setdefault(e["fn"] or "?", e)
        else:
            undecided_fn[e["fn"] or "?"] = e
    for fname_, contract in unit.get("contracts", {}).items():
        secs = ftime.get(fname_, (None, None))[0]
        for oid, _c in contract.get("ensures", []):
            if oid in failed_obl:
                obligations.append({"id": oid, "status": "violated", "seconds": secs, "message": failed_obl[oid]["text"]})
            elif fname_ in undecided_fn:
                obligations.append({"id": oid, "status": "undecided", "seconds": secs, "message": undecided_fn[fname_]["text"]})
            else:
                obligations.append({"id": oid, "status": "discharged", "seconds": secs})
        sid = f"{uid}.{fname_}.body_safe"
        if fname_ in failed_fn:
            obligations.append({"id": sid, "status": "violated", "seconds": secs, "message": failed_fn[fname_]["text"]})
        elif fname_ in undecided_fn:
            obligations.append({"id": sid, "status": "undecided", "seconds": secs, "message": undecided_fn[fname_]["text"]})
        else:
            obligations.append({"id": sid, "status": "discharged", "seconds": secs})
    for oid in unit.get("lemma_obligations", []):
        # lemma proof fns: named `lemma_xxx`; failure inside one is attributed to the lemma obligation
        lname = oid[1]
        if lname in failed_fn:
            obligations.append({"id": oid[0], "status": "violated", "seconds": ftime.get(lname, (None,))[0], "message": failed_fn[lname]["text"]})
        elif lname in undecided_fn:
            obligations.append({"id": oid[0], "status": "undecided", "seconds": ftime.get(lname, (None,))[0], "message": undecided_fn[lname]["text"]})
        else:
            obligations.append({"id": oid[0], "status": "discharged", "seconds": ftime.get(lname, (None,))[0]})
    # failures that could not be attributed to a contracted fn / lemma
    known_fns = set(unit.get("contracts", {})) | {o[1] for o in unit.get("lemma_obligations", [])}
    for fn_, e in list(failed_fn.items()) + list(undecided_fn.items()):
        if fn_ not in known_fns:
            return {"status": "undecided", "reason": f"verus error outside the contracted functions ({fn_}): {e['msg'][:200]}",
                    "file": fname, "rewrites": applied, "obligations": [], "cmd": " ".join(cmd)}
    n_ok = vr.get("verified", 0)
    if not obligations or (n_ok == 0 and not vr.get("errors")):
        return {"status": "undecided", "reason": "vacuous: verus verified nothing", "file": fname, "rewrites": applied,
                "obligations": [], "cmd": " ".join(cmd)}
    return {"status": "ok", "file": fname, "rewrites": applied, "obligations": obligations, "verified": n_ok,
            "errors": vr.get("errors", 0), "wall_s": wall, "cmd": " ".join(cmd)}


if __name__ == "__main__":
    import sys
    sys.path.insert(0, os.path.join(os.path.dirname(os.path.dirname(os.path.abspath(__file__))), "verus"))
    import units as vu
    repo = os.environ.get("VERIF_REPO", "/repo")
    for u in vu.UNITS:
        if len(sys.argv) > 1 and sys.argv[1] not in u["id"]:
            continue
        r = run_unit(u, repo, "/verif/.build/verus", "/verif/.build/logs")
        print(u["id"], r["status"], r.get("reason", ""), r.get("verified"), r.get("errors"))
        for o in r["obligations"]:
            print("   ", o["id"], o["status"], o.get("seconds"))
            if o["status"] != "discharged":
                print(o.get("message", "")[:1500])
