#!/bin/sh
# seed_run2.sh <patch.diff> <PROP> [extra ./check args]: like seed_run.sh but on a scratch worktree of /repo
# (/tmp/seedrepo) with its own build dir (/tmp/seedbuild), so that /repo stays usable meanwhile.  Build-phase aid.
P=$1; shift; PROP=$1; shift
W=/tmp/seedrepo
[ -d $W ] || git -C /repo worktree add --detach $W HEAD >/dev/null 2>&1
git -C $W checkout -q --detach $(git -C /repo rev-parse HEAD) && git -C $W checkout -q -- . 
git -C $W apply "$P" || exit 9
cd /verif && VERIF_REPO=$W VERIF_BUILD=/tmp/seedbuild ./check $PROP --no-evidence "$@"; rc=$?
git -C $W checkout -q -- .
echo "exit=$rc"
