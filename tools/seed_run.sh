#!/bin/sh
# seed_run.sh <patch.diff> <PROP> [extra ./check args] : apply a seeded change to /repo, run the check without
# touching evidence, and undo the change straight afterwards.  Build-phase aid only.
P=$1; shift; PROP=$1; shift
git -C /repo diff --quiet || { echo "/repo is dirty"; exit 9; }
git -C /repo apply "$P" || exit 9
cd /verif && ./check $PROP --no-evidence "$@"; rc=$?
git -C /repo checkout -- .
echo "exit=$rc"
