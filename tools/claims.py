"""What MANIFEST.json claims per property.  Edited by hand as units are added; gen_manifest.py renders it."""
TECH_KANI = "contract-based deductive verification: requires/ensures harnesses on the real functions, discharged by Kani/CBMC (counterexamples replayed natively)"
TECH_BOTH = TECH_KANI + "; leaf functions lifted mechanically each run and discharged by Verus/Z3"

CLAIMED = {
    "C01": {
        "category": "proof",
        "technique": TECH_BOTH,
        "text": "Each mechanism of the D-Bus encoder named in the anchors is put under a contract stated against spec functions written from the D-Bus specification, and the contract is discharged for all inputs of that function by Kani/CBMC (bit-precise). Nesting of arbitrary values rests on the per-mechanism contracts plus a paper lemma (generic T: Serialize composition cannot be given a contract).",
        "note": "Trusted: Kani/CBMC, spec functions in /verif/spec, fmt::format stub. Bounded units (strings) are reported separately and never counted as discharged proofs.",
        "design_ref": "DESIGN.md §4 C01",
    },
}

# designed (DESIGN.md §4) but the units are not built yet in this commit
NOT_BUILT = {p: "designed in DESIGN.md §4 but units not built yet in this commit (work in progress)" for p in
             ["C02", "C03", "C04", "C05", "C06", "C07", "C08", "C10", "C12", "C13", "C15", "C23"]}
