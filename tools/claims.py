"""What MANIFEST.json claims per property.  Edited by hand as units are added; gen_manifest.py renders it.

category `proof` only where every obligation that carries the property's kernel is *complete* (no bound on any
input of the contracted function); where bounded-buffer / bounded-string units carry it, the category is `other`
and the text says "bounded"."""
TECH_KANI = "contract-based deductive verification: requires/ensures harnesses on the real functions of /repo, discharged by Kani/CBMC (counterexamples replayed natively with cargo kani playback)"
TECH_BOTH = ("contract-based deductive verification: requires/ensures on the real functions of /repo -- Kani/CBMC harnesses calling the functions in place "
             "(counterexamples replayed natively), plus Verus/Z3 on leaf functions extracted mechanically from /repo on every run (tools/lift.py; unbounded, mathematical integers)")

COMMON_TRUST = ("Trusted: rustc + Kani 0.68 MIR->goto translation, CBMC 6.11; the spec functions in /verif/spec (oracle, written from the D-Bus "
                "specification); alloc::fmt::format, Signature::clone and str::to_string on error arms replaced by stubs (error payloads are not part "
                "of any contract); contract stubs of callees are justified by the callee's own unit in the same run. ")

CLAIMED = {
    "C01": {
        "category": "proof",
        "technique": TECH_BOTH,
        "text": "Each leaf mechanism of the D-Bus encoder named in the anchors is put under a contract stated against spec functions written from "
                "the D-Bus marshalling table, and discharged for ALL inputs of that function (any message position, any bytes-written count, both "
                "byte orders, any value, any writer position in the window): padding_for_n_bytes, SerializerCommon::add_padding/write, the nine "
                "fixed-size encoders through the real serde::Serializer methods, UNIX_FD index/count, serialize_seq header (length slot, "
                "first-element padding even when empty, depth, signature switch) and SeqSerializer::end_seq (back-patched length excludes the first "
                "padding; only the slot is written) -- every unit with a byte-exact frame obligation; StructSerializer::{variant,structure,end_struct} and serialize_struct_element (nested serializer gets field k's signature and the parent's counter, position and depth); the public serialized_size entry point on fixed-size values (size = padding + width = what the encoder units show is written); and, by Verus on the extracted source, padding_for_n_bytes over mathematical integers and alignment_dbus == the specification's table for EVERY signature value. String encoders are bounded (ASCII, L<=4 quick) "
                "and reported separately, never as discharged proofs. also MapSerializer::{serialize_key,serialize_value} (8-byte entry padding, key under the key signature, value under the value signature, signature restored). NOT covered: enum_variant, Serialize impls of "
                "Value/Array/Dict/Structure, FdList::Fds (dup(2)), serialized_size of containers; nesting of arbitrary values rests on the per-mechanism contracts plus a paper lemma.",
        "note": COMMON_TRUST + "Writer is a Cursor over a 16..32-byte window that is large enough for everything the unit writes; the fd count is assumed < u32::MAX. "
                "Termination not verified. Bounded units (strings) are counted in bounded_obligations only.",
        "design_ref": "DESIGN.md §4 C01, §9",
    },
    "C03": {
        "category": "other",
        "technique": TECH_KANI + "; bounded-buffer",
        "text": "Bounded contract proof: every decoder mechanism named in the anchors (parse_padding, next_slice, bool and the other fixed-size "
                "decoders, the signature-driven deserialize_any dispatch for every fixed-size basic type (the visitor gets the visit_* call of exactly that type), UNIX_FD index, strings s/g with terminator and interior-NUL rules, object paths inside variants (ValueSeed), ArrayDeserializer::new/next_element, dict and struct "
                "framing, variant signature + payload staging) is called on the real dbus::Deserializer over a fully symbolic buffer of 5..16 bytes "
                "at any message offset and byte order; `Ok` is characterised exactly (iff valid per the spec predicate) and tied to the spec "
                "decoding. Complete in everything except the buffer length, hence category `other`, not `proof`. Whole-value decoding through "
                "generic Visitor code (arbitrary signatures) is NOT decided; it rests on these contracts plus a paper lemma.",
        "note": COMMON_TRUST + "UTF-8 validity is delegated to core::str::from_utf8 (executed, not specified beyond ASCII/0xFF); object-path and signature "
                "grammar inside variants are checked on concrete instances only.",
        "design_ref": "DESIGN.md §4 C03, §9",
    },
    "C04": {
        "category": "other",
        "technique": TECH_KANI + "; bounded-buffer; panic-freedom is the implicit obligation of every unit",
        "text": "Reduced form: panic-freedom (no panic, overflow, out-of-bounds index, failed unwrap/expect) of the D-Bus leaf decoders. Every C03 unit "
                "runs with NO precondition on the bytes (only the struct invariant pos <= len), and Kani turns every reachable panic site inside the "
                "executed /repo functions into the unit's `no_panic` obligation. Bounded by the buffer length (5..16 bytes). NOT decided: GVariant "
                "decoders, whole-decoder crash freedom over arbitrary signatures, allocation size, native stack depth, re-encoding.",
        "note": COMMON_TRUST + "Same units as C03; arithmetic is machine arithmetic (overflow checks on).",
        "design_ref": "DESIGN.md §4 C04, §9",
    },
    "C07": {
        "category": "proof",
        "technique": TECH_BOTH,
        "text": "ContainerDepths::{inc_structure,inc_array,inc_variant,inc_maybe,dec_*} are proved against the representation invariant "
                "wf = (structures <= 32, arrays <= 32, total <= 64) for ALL counter states, in both feature configurations (default and gvariant): "
                "Ok iff the incremented state is within the limits, exact new state, frame on the other counters, error kind names the exceeded "
                "limit, dec is the exact inverse. Call-site units (bounded buffers, reported separately) show the D-Bus array/struct/variant "
                "(de)serializer mechanisms change exactly one counter by one and restore it. The property is the lemma 'counters = nesting depth "
                "and ADT contract => accept iff within 32/32/64'.",
        "note": COMMON_TRUST + "The lemma that call sites compose to 'counter = nesting depth' for arbitrary values is a paper lemma; GVariant call sites are not under contract.",
        "design_ref": "DESIGN.md §4 C07, §9",
    },
    "C10": {
        "category": "other",
        "technique": TECH_KANI + "; bounded string length",
        "text": "Bounded contract proof: each validator (unique, well-known, interface/error, member name; object path) returns Ok iff an independent "
                "byte-loop recogniser written from the specification accepts, for EVERY byte string (all 256 byte values) of length <= 6 (quick) / "
                "<= 10 (thorough); TryFrom<&str> constructors agree with the validators (ASCII, N<=5); the 255/256-byte limit on concrete maximal "
                "names with symbolic length 254..256; GUID = exactly 32 hex digits on a concrete template with 3 symbolic bytes and symbolic length "
                "31..33 plus the other textual UUID forms as instances; member names of exactly 255 / 256 bytes (the same units for dotted names do not finish: tool limit); object paths '/'+any byte, and non-ASCII instances; conversion from a dynamic Value for MemberName (recorded known finding: it does not validate) and BusName (validates).",
        "note": COMMON_TRUST + "uuid / winnow are executed, not assumed. Deserialize impls call try_from (read, not proved). Bound: string length.",
        "design_ref": "DESIGN.md §4 C10, §9",
    },
    "C13": {
        "category": "proof",
        "technique": TECH_KANI,
        "text": "The three generated decoders the property names are driven with serde's own value deserializers over ALL 256 byte codes "
                "(loop-free, complete): FieldCode never fails and maps known codes to their variants; BitFlags<Flags> in PrimaryHeader accepts every "
                "byte and drops unknown bits; message::Type decoding of unknown codes is a recorded known finding. The 'connection keeps "
                "delivering' clause lives in the async reader loop and is not decided.",
        "note": COMMON_TRUST + "serde value deserializers (U8Deserializer) are executed. One known finding (unknown message type is a header parse error) is "
                "listed in known_findings.txt and excluded from the obligation count.",
        "design_ref": "DESIGN.md §4 C13, §7, §9",
    },
    "C15": {
        "category": "proof",
        "technique": TECH_KANI,
        "text": "Contract on PrimaryHeader::new with the process-wide SERIAL_NUM preset to ANY u32: serial != 0; serial = counter (or 1 when the "
                "counter is 0); counter advanced by one ticket (two exactly when the first is 0); two consecutive calls from any counter value "
                "return different serials (wrap-around included). Complete, sequential. Also: under interference by up to two complete foreign calls before each atomic step (rely/guarantee model of other threads), the serial returned is never one handed out to a concurrent call; and message builders -- including the reply builders -- carry the serial freshly drawn by their own PrimaryHeader::new (a reply never inherits the serial of the call it answers).",
        "note": COMMON_TRUST + "UNCHECKED ASSUMPTION: AtomicU32::fetch_add hands out each ticket at most once under concurrency (Kani has no threads); the "
                "schedule quantifier is discharged by that assumption plus the per-call contract.",
        "design_ref": "DESIGN.md §4 C15, §9",
    },
    "C02": {
        "category": "proof",
        "technique": TECH_KANI,
        "text": "Composed contract units: for each of the nine fixed-size basic types (plus i8 and f32, which zvariant widens to INT16 / DOUBLE on the wire) the REAL serializer method writes the value at an arbitrary "
                "message position / byte order / writer offset and the REAL dbus::Deserializer then reads exactly those bytes (buffer cut at the end "
                "of what was written): decoded value bit-equal to the original (NaN payloads included) and consumed length == written length, for ALL "
                "values (complete, no bound). Containers: the generic T: Serialize / Visitor entry points are out of CBMC's reach, so the round trip "
                "of arrays, dicts, structs and variants rests on the encoder-side mechanism contracts (serialize_seq, end_seq, struct element, fd index) "
                "and the decoder-side mechanism contracts (ArrayDeserializer::new/next, struct, dict, variant; bounded buffers) being stated against the "
                "SAME spec functions, plus a paper lemma -- those units run in this check and are counted separately as bounded. Strings: composed units too, bounded (ASCII without NUL, L<=3; separate encoder / decoder contracts up to L<=4). "
                " NOT covered: dynamic Value/OwnedValue round trips, Option under option-as-array, GVariant.",
        "note": COMMON_TRUST + "`kani::assume(serializer returned Ok)` in the composed units is justified by the C01.ser_* units (Ok for every admissible state). "
                "The decoder's padding callee is replaced by its exact contract stub (unit C03.parse_padding). Termination not verified.",
        "design_ref": "DESIGN.md §4 C02, §9",
    },
    "C12": {
        "category": "other",
        "technique": TECH_BOTH + "; reduced to the panic sites the parse path itself owns",
        "text": "Reduced form. Under contract: (1) the two entry points that index the first byte of a message (Message::from_raw_parts, "
                "PrimaryHeader::read) return an error for the empty buffer and never hand it to the decoder (complete for that length; found and fixed "
                "a panic); (2) FieldPos::build/read, the cached header-field positions that are re-validated with expect(): a field that borrows from "
                "the message yields exactly its byte range, a foreign string never yields an out-of-range position, and reading a built position back "
                "on the same buffer cannot hit the slice / UTF-8 expect (bounded: buffers <= 8 bytes); (3) padding_for_8_bytes (Verus, unbounded); (4) Message::body() under the invariant body_offset <= len established by "
                "from_raw_parts: never panics whatever body length the peer declared (buffers <= 16). "
                "NOT decided: header/field/body decoding of hostile bytes (serde-derived code through Data/Value: out of CBMC's reach; its leaf decoders "
                "are C03/C04's bounded contracts) and the body-offset invariant of Message (a second panic -- body() on a message that ends before its "
                "alignment padding -- was found with a native probe and fixed, and a third -- invalid names in header fields were accepted and later hit FieldPos::read's expect -- "
                "was reported by a seeding sub-agent and fixed; no unit can decide FieldsVisitor::visit_seq or from_raw_parts itself).",
        "note": COMMON_TRUST + "PrimaryHeader::read_from_data is replaced by a failing stub in the empty-buffer units (they show it is not reached). "
                "The T::try_from expect in FieldPos::read relies on validators being pure functions (same string validated at build time): argued, not checked.",
        "design_ref": "DESIGN.md §4 C12, §9",
    },
    "C23": {
        "category": "other",
        "technique": TECH_KANI + "; bounded string length; percent codec only",
        "text": "Reduced to the percent codec the anchors name. decode_hex: for EVERY char, Ok(v) iff ASCII hex digit, with its value (complete). "
                "decode_percents: for every ASCII string of length <= 3 (quick) / <= 5 (thorough), Ok iff a spec decoder written from the D-Bus "
                "specification accepts (optionally-escaped set verbatim, %XX decoded, everything else an error), and the decoded bytes are equal. "
                "encode_percents (driven through core::fmt::write into a fixed sink): for every byte string (all 256 values) of length <= 2 the output "
                "is a valid escaping whose spec decoding is the input -- so decode(encode(v)) = v by the two contracts. NOT covered: Address::from_str, "
                "option maps, per-transport from_options/Display (HashMap, String, OsString): a change there is not detected.",
        "note": COMMON_TRUST + "Bounded by string length; core::fmt::write is executed.",
        "design_ref": "DESIGN.md §4 C23, §9",
    },
    "C08": {
        "category": "proof",
        "technique": TECH_KANI,
        "text": "Reduced to the scalar variants of Value (U8, Bool, I16, U16, I32, U32, I64, U64, F64), where every law is a complete proof over "
                "ALL payloads (one unit per variant and per pair of variants, concrete discriminants, symbolic payloads): == symmetric; cmp "
                "antisymmetric; cmp == Equal iff ==; == implies equal hashes through an arbitrary (harness-local) Hasher, including +0.0/-0.0; "
                "partial_cmp agrees with cmp; reflexivity; try_clone / try_to_owned preserve ==, hash and the reported signature; the reported "
                "signature is the D-Bus type code of the variant; T -> Value -> T returns the original bit pattern. The NaN clauses are split "
                "off and are two recorded known findings (Value::F64(NaN) != itself while cmp says Equal). Quick tier: 9 same-variant units, 9 "
                "single-variant units, 5 cross pairs; thorough: all 36 unordered pairs. Str payloads: one bounded unit (ASCII, L<=2: == iff same bytes, cmp/hash consistent, signature `s`, &str round trip). NOT covered: Signature/ObjectPath payloads, container "
                "values (Array, Dict, Structure, Value(Box), Maybe, Fd) -- they allocate and recurse, out of CBMC's reach -- and transitivity "
                "(triples). The property's quantifier over arbitrary nested trees is therefore decided only at the scalar leaves.",
        "note": COMMON_TRUST + "Two known findings (NaN) are listed in known_findings.txt and excluded from the obligation count. The Hasher used is a "
                "harness-local FNV variant: the law is stated over the sequence of write calls, so it holds for every Hasher.",
        "design_ref": "DESIGN.md §4 C08, §10",
    },
    "C05": {
        "category": "other",
        "technique": TECH_BOTH + "; reduced to the framing-offset machinery",
        "text": "Reduced to the framing-offset mechanisms the anchors name (needs --features gvariant). FramingOffsetSize::for_bare_container returns "
                "the MINIMAL width (1/2/4/8) whose maximum can address the container including the offsets themselves -- for ALL lengths, twice: "
                "Verus on the extracted source (loop invariant + decreases, mathematical integers) and Kani bit-precisely on usize (the 255 / 65535 "
                "thresholds crossed by the offsets themselves are cover points); write_offset writes exactly `width` little-endian bytes and nothing "
                "else (complete); read_last_offset_from_buffer returns the value of the last `width` bytes (buffers <= 12); FramingOffsets::write_all "
                "writes the offsets in insertion order at the minimal width chosen from the final container size, and nothing when there are none "
                "(<= 3 offsets); FramingOffsets::from_encoded_array never panics on any container of <= 6 bytes and only hands out offsets that point before the offset table. NOT decided: the alignment_gvariant / is_fixed_sized tables (units did not finish under CBMC even on concrete "
                "signatures, Verus rejects the iterator adapters), the GVariant serializer's per-type and container layout (arrays, structs, dicts, "
                "maybe, variants), and BOOLEAN width (zvariant routes it through the D-Bus path: suspect, not under contract). A change there is not detected.",
        "note": COMMON_TRUST + "Verus unit: usize = 64 bit; lift rewrites listed in evidence. Offsets passed to write_offset are assumed representable in the chosen width "
                "(they are <= the container size, which fits by for_bare_container).",
        "design_ref": "DESIGN.md §4 C05, §10",
    },
}

# designed (DESIGN.md §4) but the units are not built: listed under not_applicable with that reason
NOT_BUILT = {
    "C06": "parser acceptance (the main clause) is out of reach: the recursive winnow grammar does not finish at N<=4 under CBMC and Verus cannot process the combinator closures; the formatting / length / equality units designed in DESIGN.md §4 were not built, and units that walk static Signature trees through iterator adapters did not finish when tried for C05 (alignment_gvariant); not claimed",
}
