#!/bin/sh
# seed_confirm.sh <ID> [outdir-name] : confirm a seeded change delivered by a sub-agent in /tmp/seed/<ID>/{wt,out}
#   (1) patch applies to a clean checkout, (2) demo fails with the patch, (3) demo passes without it,
#   (4) the baseline test list still passes with the patch (crates touched + dependants; daemon tests excluded).
# Build-phase aid only (not part of any registered command).
ID=$1; OUT=${2:-out}; D=/tmp/seed/$ID; WT=$D/wt
export CARGO_TARGET_DIR=$WT/target CARGO_NET_OFFLINE=true
cd $WT || exit 9
demo_dst=$(grep -o '[a-z_]*/tests/[A-Za-z0-9_]*\.rs\|[a-z_]*/src/[A-Za-z0-9_/]*\.rs' $D/$OUT/demo.rs | head -1)
echo "demo destination: $demo_dst"
git checkout -q -- . ; git clean -fdq -e target
git apply --check $D/$OUT/patch.diff || { echo "PATCH DOES NOT APPLY"; exit 1; }
crate=$(echo $demo_dst | cut -d/ -f1); tname=$(basename $demo_dst .rs)
mkdir -p $(dirname $demo_dst); cp $D/$OUT/demo.rs $demo_dst
echo "== clean tree: demo must pass"
cargo test --offline -p $crate --test $tname 2>&1 | grep -E "^test result|FAILED|panicked|error" | head -5
git apply $D/$OUT/patch.diff
echo "== patched tree: demo must fail"
cargo test --offline -p $crate --test $tname 2>&1 | grep -E "^test result|FAILED|error(\[|:)" | head -5
rm -f $demo_dst
echo "== patched tree: existing tests"
cargo test --workspace --no-fail-fast --offline 2>&1 | grep -E "^test .* (ok|FAILED)$|^test result" > $D/$OUT/suite.txt
python3 - <<P
import re
passed=set()
for l in open("$D/$OUT/suite.txt"):
    m=re.match(r"test (\S+) \.\.\. ok",l)
    if m: passed.add(m.group(1))
want=[l.strip() for l in open("/tmp/seed/stable_pass.txt") if l.strip()]
# baseline ids are <crate-or-testbinary>::<path>; compare on the path suffix after the first ::
missing=[w for w in want if not any(w.split("::",1)[1]==p or w.split("::",1)[1].endswith("::"+p) or p.endswith(w.split("::",1)[1]) for p in passed)]
print("baseline tests passing with patch:", len(want)-len(missing), "/", len(want))
print("missing:", missing[:10])
P
git checkout -q -- . ; git clean -fdq -e target
